"""C31 -- Multi-grid index maps are consistent at every level.

Tie: (a) tr/c31_index.py translates the scalar index formulas of nifty/re/multi_grid/grid.py into
coq/C31/Gen_Index.v on every run (the theorems are re-proved against that text); (b) the
broadcasting / level-recursion / flat-encoding model of coq/C31/Model.v is compared EXHAUSTIVELY
(every index of every level, plus out-of-range probes) with the real Grid / OpenGrid / HEALPixGrid /
MGrid / FlatGrid objects on generated small grids, integer results exactly, coordinates and
volumes as exact dyadic rationals within 1e-12, inside coqc (vm_compute).
Direct oracle: the property itself on the implementation (parent o children = id, children
partition the next level, conversions round-trip, neighbourhood windows, volumes), NumPy only."""
import itertools
import json
import os
from fractions import Fraction

import numpy as np

from .. import common as C
from .. import fasteval

CAP_ALL = 800          # levels with at most this many voxels are enumerated exhaustively
HEADER = ("From Coq Require Import ZArith QArith List Bool. Import ListNotations.\n"
          "Require Import NV.C31.Prim NV.C31.Gen_Index NV.C31.Model.\nOpen Scope Z_scope.\n")


# --------------------------------------------------------------------------------------------------
# grid descriptions  <->  NIFTy objects  <->  Coq terms
# --------------------------------------------------------------------------------------------------

def build_base(b):
    from nifty.re.multi_grid.grid import Grid, OpenGrid
    from nifty.re.multi_grid.grid_impl import HEALPixGrid
    if b["kind"] == "reg":
        return Grid(shape0=tuple(b["shape0"]), splits=tuple(tuple(s) for s in b["splits"]))
    if b["kind"] == "open":
        return OpenGrid(shape0=tuple(b["shape0"]), splits=tuple(tuple(s) for s in b["splits"]),
                        padding=tuple(tuple(p) for p in b["padding"]))
    if b["kind"] == "hp":
        return HEALPixGrid(nside0=int(b["nside0"]), depth=int(b["depth"]))
    raise ValueError(b["kind"])


def build_grid(spec):
    from nifty.re.multi_grid.grid import MGrid
    bs = [build_base(b) for b in spec["bases"]]
    return bs[0] if len(bs) == 1 else MGrid(*bs)


def spec_depth(spec):
    b = spec["bases"][0]
    return int(b["depth"]) if b["kind"] == "hp" else len(b["splits"])


def has_hp(spec):
    return any(b["kind"] == "hp" for b in spec["bases"])


def has_open(spec):
    return any(b["kind"] == "open" for b in spec["bases"])


def z(x):
    """Plain Z literal (the cases header opens Z_scope; `(n)%Z` costs twice the parsing time)."""
    x = int(x)
    return str(x) if x >= 0 else "(%d)" % x


def zl(v):
    return "[" + ";".join(z(x) for x in v) + "]"


def zll(v):
    return C.clist([zl(x) for x in v])


def zlll(v):
    return C.clist([zll(x) for x in v])


def ql(v):
    return C.clist([C.cq(float(x)) for x in v])


def qll(v):
    return C.clist([ql(x) for x in v])


def base_coq(b):
    if b["kind"] == "reg":
        return "(Reg %s %s)" % (zl(b["shape0"]), zll(b["splits"]))
    if b["kind"] == "open":
        return "(Opn %s %s %s)" % (zl(b["shape0"]), zll(b["splits"]), zll(b["padding"]))
    return "(Reg %s %s)" % (zl([12 * b["nside0"] ** 2]), zll([[4]] * b["depth"]))


def spec_coq(spec):
    return C.clist([base_coq(b) for b in spec["bases"]])


def oz(x):
    return "None" if x is None else "(Some %s)" % z(x)


# --------------------------------------------------------------------------------------------------
# observation of the implementation
# --------------------------------------------------------------------------------------------------

def observed_axes(ga):
    """Per-axis parameters of a GridAtLevel as the implementation holds them."""
    from nifty.re.multi_grid.grid import OpenGridAtLevel
    out = []
    for rg in ga.raw_grids:
        op = isinstance(rg, OpenGridAtLevel)
        for k in range(rg.ndim):
            def get(a):
                v = getattr(rg, a, None)
                return None if v is None else int(np.asarray(v)[k])
            out.append({"shape": int(rg.shape[k]), "split": get("splits"), "psplit": get("parent_splits"),
                        "open": op, "pad": get("padding") if op else None,
                        "ppad": get("parent_padding") if op else None,
                        "shift": int(np.asarray(rg.shifts)[k]) if op else 0})
    return out


def axis_coq(a):
    return "(mkAxis %s %s %s %s %s %s %s)" % (z(a["shape"]), oz(a["split"]), oz(a["psplit"]), C.cbool(a["open"]),
                                              oz(a["pad"]), oz(a["ppad"]), z(a["shift"]))


def probes_for(shape, rng, n_out):
    """All in-range index vectors (or a sample if the level is large) + out-of-range probes."""
    shape = [int(s) for s in shape]
    size = int(np.prod(shape))
    if size <= CAP_ALL:
        inr = np.mgrid[tuple(slice(0, s) for s in shape)].reshape(len(shape), -1)
        exhaustive = True
    else:
        inr = np.stack([rng.integers(0, s, size=CAP_ALL) for s in shape])
        exhaustive = False
    if len(shape) == 1:
        s = shape[0]
        out = np.concatenate([np.arange(-s - 2, 0), np.arange(s, s + 3)])[None, :]
    else:
        out = np.stack([rng.integers(-s - 2, s + 3, size=n_out) for s in shape])
    return inr.astype(np.int64), out.astype(np.int64), exhaustive


SIZE_CLASSES = (32, 128, 512, 1024)


def pad_cols(P):
    """Pad the probe batch (.., N) to one of a few fixed sizes by repeating the last column, so that
    JAX compiles its element-wise kernels for a handful of shapes only (run time, not semantics)."""
    n = P.shape[-1]
    m = next((c for c in SIZE_CLASSES if c >= n), n)
    if m == n:
        return P
    return np.concatenate([P, np.repeat(P[..., -1:], m - n, axis=-1)], axis=-1)


def per_probe(arr, ndim, n):
    """(ndim, N, ...) -> list over probes of list over window cells (C order) of index vectors."""
    a = np.asarray(arr)
    a = a.reshape(ndim, a.shape[1], -1)[:, :n]
    return np.transpose(a, (1, 2, 0))


def spec_rng(spec, salt=0):
    """Deterministic generator derived from the grid description only (windows, probes)."""
    import zlib
    return np.random.default_rng([zlib.crc32(json.dumps(spec, sort_keys=True).encode()), salt])


def windows_for(spec, shapes):
    rng = spec_rng(spec, 1)
    out = []
    for shape in shapes:
        w = [int(x) for x in rng.integers(1, 5, size=len(shape))]
        while int(np.prod(w)) * min(int(np.prod(shape)), CAP_ALL) * len(shape) > 3000 and max(w) > 1:
            w[int(np.argmax(w))] -= 1
        out.append(w)
    return out


def observe(spec):
    """Run the real grid classes on every level.  Returns a JSON-able dict of observations."""
    from nifty.re.multi_grid.grid import FlatGrid
    rng = spec_rng(spec, 0)
    g = build_grid(spec)
    depth = spec_depth(spec)
    hp = has_hp(spec)
    obs = {"spec": spec, "levels": []}
    shapes = [[int(s) for s in g.at(l).shape] for l in range(depth + 1)]
    windows = windows_for(spec, shapes)
    inrs = [probes_for(sh, rng, 12) for sh in shapes]
    flats = {o: FlatGrid(g, ordering=o) for o in ("serial", "nest") if not (o == "nest" and has_open(spec))}
    for l in range(depth + 1):
        ga = g.at(l)
        shape = shapes[l]
        nd = len(shape)
        inr, outr, exh = inrs[l]
        P = np.concatenate([inr, outr], axis=1)
        n = P.shape[1]
        Pp = pad_cols(P)
        lv = {"level": l, "shape": shape, "axes": observed_axes(ga), "probes": P.T.tolist(), "n_in": int(inr.shape[1]),
              "exhaustive": exh}
        if l < depth:
            lv["children"] = per_probe(ga.children(Pp), nd, n).tolist()
        if l > 0:
            lv["parent"] = np.asarray(ga.parent(Pp))[:, :n].T.tolist()
        if not hp:
            # round 7: _is_index_refined on all probes (in and out of range); on small levels the
            # complete refined_indices() box in the order the implementation returns it
            lv["is_refined"] = [bool(v) for v in np.asarray(ga._is_index_refined(Pp)).reshape(-1)[:n]]
            if l < depth and int(np.prod(shape)) <= 800:
                lv["refined_indices"] = np.asarray(ga.refined_indices()).reshape(nd, -1).T.astype(int).tolist()
            w = windows[l]
            lv["window"] = w
            lv["neighborhood"] = per_probe(ga.neighborhood(Pp, tuple(w)), nd, n).tolist()
            co = np.asarray(ga.index2coord(Pp), dtype=np.float64)
            lv["coord_rt"] = np.asarray(ga.coord2index(co)).astype(np.int64)[:, :n].T.tolist()
            # coordinate VALUES (long dyadic literals) are compared on a diagonal probe set that
            # contains every per-axis index from -shape-2 to shape+2 (the maps are axis-separable;
            # the integer round trip above runs on all probes)
            smax = max(shape)
            D = np.stack([np.clip(np.arange(-smax - 2, smax + 3), -s - 2, s + 2) for s in shape]).astype(np.int64)
            nD = D.shape[1]
            cod = np.asarray(ga.index2coord(pad_cols(D)), dtype=np.float64)
            lv["dprobes"] = D.T.tolist()
            lv["coord"] = cod[:, :nD].T.tolist()
            # coord2index on dyadic coordinates away from rounding ties: cell centres shifted by
            # at most a quarter cell, snapped to odd multiples of 2^-21 (never a half-integer index
            # in exact arithmetic unless the float computation is exact, too)
            ext = np.array([a["shape"] + 2 * a["shift"] for a in lv["axes"]], dtype=np.float64)
            cq = (np.floor((cod + (rng.integers(-1, 2, size=cod.shape) * 0.25) / ext[:, None]) * 2.0 ** 20) + 0.5) / 2.0 ** 20
            lv["coordq"] = cq[:, :nD].T.tolist()
            lv["coordq_idx"] = np.asarray(ga.coord2index(cq)).astype(np.int64)[:, :nD].T.tolist()
            # coordinates for coord2index(return_valid=True) of the flat views: inside, outside on all
            # axes (diagonal set above), outside on SOME axes only, and the exact box boundaries 0.0 / 1.0
            nmix = 24
            imix = np.stack([rng.integers(-2, s + 2, size=nmix) for s in shape]).astype(np.float64)
            shf = np.array([a["shift"] for a in lv["axes"]], dtype=np.float64)
            cmix = (imix + shf[:, None] + 0.5 + rng.integers(-1, 2, size=imix.shape) * 0.25) / ext[:, None]
            cmix = (np.floor(cmix * 2.0 ** 20) + 0.5) / 2.0 ** 20
            centre = cq[:, nD // 2:nD // 2 + 1]
            cb = [np.zeros((nd, 1)), np.ones((nd, 1))]
            for k in range(nd):
                for v in (0.0, 1.0):
                    c1 = centre.copy()
                    c1[k, 0] = v
                    cb.append(c1)
            lv["coordv"] = np.concatenate([cq[:, :nD], cmix] + cb, axis=1)
        lv["volume"] = float(np.asarray(ga.index2volume(P[:, :1])).ravel()[0])
        # flat views
        lv["flat"] = {}
        for ordering, fg in flats.items():
            fa = fg.at(l)
            size = int(fa.shape[0])
            if size <= CAP_ALL:
                fin = np.arange(size, dtype=np.int64)
            else:
                fin = rng.integers(0, size, size=CAP_ALL).astype(np.int64)
            fout = np.array([-size - 1, -size, -1, size, size + 2], dtype=np.int64)
            fp = np.concatenate([fin, fout])[None, :]
            nf = fp.shape[1]
            fpp = pad_cols(fp)
            fo = {"probes": fp[0].tolist(), "n_in": int(fin.size)}
            fo["dec"] = np.asarray(fa.flatindex2index(pad_cols(fin[None, :])))[:, :fin.size].T.tolist()
            fo["enc0"] = np.asarray(fa.index2flatindex(pad_cols(inr), 0))[0, :inr.shape[1]].tolist()
            if l < depth:
                fo["children"] = np.asarray(fa.children(fpp))[0].reshape(fpp.shape[1], -1)[:nf].tolist()
                nin = inrs[l + 1][0]
                fo["enc_next_probes"] = nin.T.tolist()
                fo["enc_next"] = np.asarray(fa.index2flatindex(pad_cols(nin), +1))[0, :nin.shape[1]].tolist()
            if l > 0:
                fo["parent"] = np.asarray(fa.parent(fpp))[0, :nf].tolist()
                pin = inrs[l - 1][0]
                fo["enc_prev_probes"] = pin.T.tolist()
                fo["enc_prev"] = np.asarray(fa.index2flatindex(pad_cols(pin), -1))[0, :pin.shape[1]].tolist()
            if not hp:
                fo["neighborhood"] = np.asarray(fa.neighborhood(fpp, tuple(lv["window"])))[0].reshape(fpp.shape[1], -1)[:nf].tolist()
                cv = lv["coordv"]
                fi, va = fa.coord2index(pad_cols(cv), return_valid=True)
                fo["c2i_flat"] = np.asarray(fi).astype(np.int64)[0, :cv.shape[1]].tolist()
                fo["c2i_valid"] = [bool(x) for x in np.asarray(va).reshape(-1)[:cv.shape[1]]]
                fo["c2i_plain"] = np.asarray(fa.coord2index(pad_cols(cv))).astype(np.int64)[0, :cv.shape[1]].tolist()
            lv["flat"][ordering] = fo
        obs["levels"].append(lv)
    return obs


def checks_for(obs):
    """Coq boolean terms: model == observation, one per (level, map)."""
    spec = obs["spec"]
    g = spec_coq(spec)
    hp = has_hp(spec)
    out = []

    def add(what, level, term):
        out.append(({"what": what, "level": level, "spec": spec}, term))
    for lv in obs["levels"]:
        l = lv["level"]
        L = C.cnat(l)
        P = zll(lv["probes"])
        add("axes", l, "chk_axes %s %s %s" % (g, L, C.clist([axis_coq(a) for a in lv["axes"]])))
        if "children" in lv:
            add("children", l, "chk_children %s %s %s %s" % (g, L, P, zlll(lv["children"])))
        if "parent" in lv:
            add("parent", l, "chk_parent %s %s %s %s" % (g, L, P, zll(lv["parent"])))
        if not hp:
            add("is-refined", l, "chk_is_refined %s %s %s %s" % (g, L, P, C.clist([C.cbool(v) for v in lv["is_refined"]])))
            if "refined_indices" in lv:
                add("refined-indices", l, "chk_refined_indices %s %s %s" % (g, L, zll(lv["refined_indices"])))
            add("neighborhood", l, "chk_neighborhood %s %s %s %s %s" % (g, L, zl(lv["window"]), P, zlll(lv["neighborhood"])))
            add("coord", l, "chk_coord %s %s (1 # 1000000000000)%%Q %s %s %s %s" % (g, L, zll(lv["dprobes"]), qll(lv["coord"]), P, zll(lv["coord_rt"])))
            add("coord2index", l, "chk_coord2index %s %s %s %s" % (g, L, qll(lv["coordq"]), zll(lv["coordq_idx"])))
            add("volume", l, "chk_volume %s %s (1 # 1000000000000000)%%Q %s" % (g, L, C.cq(lv["volume"])))
        for ordering, fo in lv["flat"].items():
            S = C.cbool(ordering == "serial")
            fin = fo["probes"][:fo["n_in"]]
            add("flat-%s-dec" % ordering, l, "chk_flat_dec %s %s %s %s %s" % (g, L, S, zl(fin), zll(fo["dec"])))
            add("flat-%s-enc" % ordering, l, "chk_flat_enc %s %s %s 0 %s %s" % (g, L, S, zll(lv["probes"][:lv["n_in"]]), zl(fo["enc0"])))
            if "children" in fo:
                add("flat-%s-children" % ordering, l, "chk_flat_children %s %s %s %s %s" % (g, L, S, zl(fo["probes"]), zll(fo["children"])))
                add("flat-%s-enc+1" % ordering, l, "chk_flat_enc %s %s %s 1 %s %s" % (g, L, S, zll(fo["enc_next_probes"]), zl(fo["enc_next"])))
            if "parent" in fo:
                add("flat-%s-parent" % ordering, l, "chk_flat_parent %s %s %s %s %s" % (g, L, S, zl(fo["probes"]), zl(fo["parent"])))
                add("flat-%s-enc-1" % ordering, l, "chk_flat_enc %s %s %s (-1) %s %s" % (g, L, S, zll(fo["enc_prev_probes"]), zl(fo["enc_prev"])))
            if "neighborhood" in fo:
                add("flat-%s-neighborhood" % ordering, l, "chk_flat_neighborhood %s %s %s %s %s %s" % (
                    g, L, S, zl(lv["window"]), zl(fo["probes"]), zll(fo["neighborhood"])))
            if "c2i_flat" in fo:
                add("flat-%s-coord2index-valid" % ordering, l, "chk_flat_coord2index %s %s %s %s %s %s && chk_flat_coord2index_plain %s %s %s %s %s" % (
                    g, L, S, qll(lv["coordv"].T), zl(fo["c2i_flat"]), "[" + ";".join(C.cbool(b) for b in fo["c2i_valid"]) + "]",
                    g, L, S, qll(lv["coordv"].T), zl(fo["c2i_plain"])))
    return out


# --------------------------------------------------------------------------------------------------
# the property stated directly on the implementation (independent of Coq)
# --------------------------------------------------------------------------------------------------

def B(fn, P, *args):
    """Call an index map on the batch P (.., N) padded to a fixed size class; cut the result back."""
    n = P.shape[-1]
    out = np.asarray(fn(pad_cols(P), *args))
    return out[:, :n]


def direct_failures(spec):
    """List of (signature, what, input) for every way the grid described by `spec` violates C31."""
    from nifty.re.multi_grid.grid import FlatGrid
    fails = []

    def fail(fn, what, **inp):
        d = {"spec": spec}
        d.update(inp)
        fails.append(({"fn": fn, "kinds": "+".join(b["kind"] for b in spec["bases"])}, what, d))
    g = build_grid(spec)
    depth = spec_depth(spec)
    hp = has_hp(spec)
    shapes = [[int(s) for s in g.at(l).shape] for l in range(depth + 1)]
    windows = windows_for(spec, shapes)
    flats = {o: FlatGrid(g, ordering=o) for o in ("serial", "nest") if not (o == "nest" and has_open(spec))}
    vol_prev = None
    for l in range(depth + 1):
        ga = g.at(l)
        shape = np.array(shapes[l])
        nd = shape.size
        if int(np.prod(shape)) > 4096:
            continue
        idx = np.mgrid[tuple(slice(0, s) for s in shape)].reshape(nd, -1)
        n = idx.shape[1]
        axes = observed_axes(ga)
        # --- parent o children = id, children partition the next level
        if l < depth:
            nxt = g.at(l + 1)
            ref = np.asarray(ga.refined_indices()).reshape(nd, -1)
            nr = ref.shape[1]
            # refined_indices() is exactly the set of voxels that _is_index_refined marks (for open
            # grids: pad <= i < shape - pad on every axis, also where the padding is 0)
            mask = np.asarray(ga._is_index_refined(idx)).astype(bool).reshape(-1)
            want_ref = idx[:, mask]
            if want_ref.shape != ref.shape or (np.asarray(sorted(map(tuple, ref.T))) != np.asarray(sorted(map(tuple, want_ref.T)))).any():
                fail("refined-indices", "refined_indices() of level %d has %d voxels, _is_index_refined marks %d (axes %s)" % (
                    l, nr, want_ref.shape[1], [(a["shape"], a["pad"]) for a in axes]), level=l)
                continue
            ch = B(ga.children, ref).reshape(nd, nr, -1)
            nc = ch.shape[2]
            par = B(nxt.parent, ch.reshape(nd, -1)).reshape(nd, nr, nc)
            bad = np.argwhere((par != ref[:, :, None]).any(axis=0))
            if bad.size:
                i, c = bad[0]
                fail("parent(children)", "parent of a child is not the index: level %d index %s child %s -> parent %s" % (
                    l, ref[:, i].tolist(), ch[:, i, c].tolist(), par[:, i, c].tolist()), level=l, index=ref[:, i].tolist())
            nshape = np.array(shapes[l + 1])
            flat_ch = ch.reshape(nd, -1)
            ok = bool(((flat_ch >= 0) & (flat_ch < nshape[:, None])).all())
            if ok:
                lin = np.ravel_multi_index(tuple(flat_ch), tuple(nshape))
                ok = lin.size == int(np.prod(nshape)) and np.unique(lin).size == lin.size
            if not ok:
                fail("children-partition", "children of the refined indices of level %d do not partition level %d (%d children, %d voxels)" % (
                    l, l + 1, flat_ch.shape[1], int(np.prod(nshape))), level=l)
            # refinement keeps the volume of a refined voxel: children volumes add up to the parent's
            vp = float(np.asarray(ga.index2volume(ref[:, :1])).ravel()[0])
            vc = float(np.asarray(nxt.index2volume(ch[:, 0, :1])).ravel()[0]) * nc
            if not abs(vc - vp) <= 1e-12 * abs(vp):
                fail("volume", "children volumes (%r) do not add up to the parent volume (%r) at level %d" % (vc, vp, l), level=l)
        # --- total volume never grows
        vol = float(np.asarray(ga.index2volume(idx[:, :1])).ravel()[0]) * n
        if vol_prev is not None and not vol <= vol_prev * (1 + 1e-12):
            fail("volume", "total volume grows from level %d to %d: %r -> %r" % (l - 1, l, vol_prev, vol), level=l)
        vol_prev = vol
        # --- index <-> coordinate
        co = B(ga.index2coord, idx)
        rt = B(ga.coord2index, co).astype(np.int64)
        if rt.shape != idx.shape or (rt != idx).any():
            k = int(np.argwhere((rt != idx).any(axis=0))[0][0]) if rt.shape == idx.shape else 0
            fail("coord-roundtrip", "coord2index(index2coord(i)) != i at level %d index %s" % (l, idx[:, k].tolist()), level=l, index=idx[:, k].tolist())
        # --- product grids: asking for the validity mask does not change the index
        if len(spec["bases"]) > 1 and not hp:
            r = ga.coord2index(pad_cols(co), return_valid=True)
            if not (isinstance(r, tuple) and len(r) == 2 and (np.asarray(r[0])[:, :n].astype(np.int64) == idx).all()
                    and np.asarray(r[1]).reshape(-1)[:n].astype(bool).all()):
                fail("coord2index-valid", "MGridAtLevel.coord2index(return_valid=True) does not return (index, all-valid) for the voxel centres of level %d" % l, level=l)
        # --- children's coordinates lie in the parent's cell (regular / open axes)
        if l < depth and not hp:
            ext = np.array([a["shape"] + 2 * a["shift"] for a in axes], dtype=float)
            cpar = B(ga.index2coord, ref)
            cch = B(nxt.index2coord, ch.reshape(nd, -1)).reshape(nd, nr, nc)
            if (np.abs(cch - cpar[:, :, None]) > 0.5 / ext[:, None, None] + 1e-12).any():
                fail("coord-nesting", "a child's coordinate lies outside its parent's cell at level %d" % l, level=l)
        # --- neighbourhoods
        if not hp:
            w = np.array(windows[l])
            nb = B(ga.neighborhood, idx, tuple(int(x) for x in w)).reshape(nd, n, -1)
            off = np.mgrid[tuple(slice(0, int(x)) for x in w)].reshape(nd, -1) - (w // 2)[:, None]
            inside = ((nb >= 0) & (nb < shape[:, None, None])).all()
            cong = (((nb - idx[:, :, None] - off[:, None, :]) % shape[:, None, None]) == 0).all()
            if not (inside and cong):
                fail("neighborhood", "a neighbourhood window leaves the level or is not the wrapped window (level %d, window %s)" % (l, w.tolist()), level=l, window=w.tolist())
            # open axes: interior voxels (those whose window fits) get the un-wrapped window
            for k, a in enumerate(axes):
                if a["open"]:
                    lo, hi = w[k] // 2, shape[k] - (w[k] - 1 - w[k] // 2)
                    sel = (idx[k] >= lo) & (idx[k] < hi)
                    if (nb[k][sel] != (idx[k][sel][:, None] + off[k][None, :])).any():
                        fail("neighborhood", "open axis %d: window of an interior voxel is wrapped/clipped (level %d)" % (k, l), level=l, window=w.tolist())
        # --- flat views
        for ordering, fg in flats.items():
            fa = fg.at(l)
            size = int(fa.shape[0])
            f = np.arange(size, dtype=np.int64)[None, :]
            # no aliasing: the index maps must not modify the (NumPy) index array of the caller
            keep = f.copy()
            probe_idx = idx.copy()
            calls = [("flatindex2index", lambda: fa.flatindex2index(f)), ("index2flatindex", lambda: fa.index2flatindex(probe_idx)),
                     ("index2coord", lambda: fa.index2coord(f))]
            if l < depth:
                calls.append(("children", lambda: fa.children(f)))
            if l > 0:
                calls.append(("parent", lambda: fa.parent(f)))
            for nm, call in calls:
                call()
                if not (np.array_equal(f, keep) and np.array_equal(probe_idx, idx)):
                    fail("aliasing", "FlatGridAtLevel.%s modified the caller's index array (%s, level %d): %s -> %s" % (
                        nm, ordering, l, keep[0, :6].tolist(), f[0, :6].tolist()), level=l, ordering=ordering)
                    f = keep.copy()
                    probe_idx = idx.copy()
                    break
            dec = B(fa.flatindex2index, f)
            enc = B(fa.index2flatindex, dec)
            okr = dec.shape == (nd, size) and ((dec >= 0) & (dec < shape[:, None])).all() and (enc == f).all()
            enc2 = B(fa.index2flatindex, idx)
            if not hp:
                # coordinate -> flat index with validity: centres of the level's voxels are valid and map to
                # their own flat index; centres of (virtual) voxels one or two cells outside on any axis are invalid
                fi, va = fa.coord2index(pad_cols(co), return_valid=True)
                fi, va = np.asarray(fi)[:, :n], np.asarray(va).reshape(-1)[:n].astype(bool)
                if not (va.all() and (fi == enc2).all()):
                    fail("coord2index-valid", "FlatGrid(%s).coord2index(return_valid=True): a voxel centre of level %d is reported invalid or mapped to another voxel" % (ordering, l), level=l, ordering=ordering)
                for k in range(nd):
                    for off in (-2, -1, int(shape[k]), int(shape[k]) + 1):
                        out_idx = idx.copy()
                        out_idx[k] = off
                        co_out = np.asarray(ga.index2coord(pad_cols(out_idx)))[:, :n]
                        _, vo = fa.coord2index(pad_cols(co_out), return_valid=True)
                        vo = np.asarray(vo).reshape(-1)[:n].astype(bool)
                        if vo.any():
                            fail("coord2index-valid", "FlatGrid(%s).coord2index(return_valid=True) reports a coordinate outside the grid (axis %d, voxel index %d of %d) as valid at level %d" % (
                                ordering, k, off, int(shape[k]), l), level=l, ordering=ordering)
                            break
                    else:
                        continue
                    break
            dec2 = B(fa.flatindex2index, enc2)
            okr = okr and (dec2 == idx).all() and np.unique(enc2).size == n
            if not okr:
                fail("flat-roundtrip", "flat index <-> index does not round-trip (%s, level %d)" % (ordering, l), level=l, ordering=ordering)
            if l < depth:
                fnx = fg.at(l + 1)
                rf = np.asarray(fa.refined_indices())
                nrf = rf.shape[1]
                fch = B(fa.children, rf)[0].reshape(nrf, -1)          # (n_ref, n_children)
                fpar = B(fnx.parent, fch.reshape(1, -1))[0].reshape(fch.shape)
                if (fpar != rf[0][:, None]).any():
                    fail("flat-parent(children)", "flat parent of a flat child is not the index (%s, level %d)" % (ordering, l), level=l, ordering=ordering)
                allc = np.sort(fch.ravel())
                if allc.size != int(fnx.shape[0]) or (allc != np.arange(allc.size)).any():
                    fail("flat-children-partition", "flat children do not partition the next level (%s, level %d)" % (ordering, l), level=l, ordering=ordering)
                # flat children commute with the structured ones
                sch = B(ga.children, B(fa.flatindex2index, rf)).reshape(nd, nrf, -1)
                want = B(fnx.index2flatindex, sch.reshape(nd, -1))[0].reshape(fch.shape)
                if (want != fch).any():
                    fail("flat-commute", "flat children differ from the flattened structured children (%s, level %d)" % (ordering, l), level=l, ordering=ordering)
                if ordering == "nest":
                    nchild = fch.shape[1]
                    if (fch != rf[0][:, None] * nchild + np.arange(nchild)[None, :]).any():
                        fail("nest-blocks", "nest ordering: children of f are not the block f*n .. f*n+n-1 (level %d)" % l, level=l, ordering=ordering)
    return fails


def direct_failures_extra(budget):
    """Properties of grids outside the Coq model (HEALPix geometry, SimpleOpenGrid, LogGrid):
    stated on the implementation only."""
    from nifty.re.multi_grid.grid_impl import HEALPixGrid, SimpleOpenGrid, LogGrid
    fails = []

    def fail(fn, what, **inp):
        fails.append(({"fn": fn, "kinds": inp.get("kind", "extra")}, what, inp))
    # HEALPix nested refinement is geometric: a child's centre lies in its parent's pixel, pixel
    # centres round-trip, and the 8 neighbours agree with ducc0's HEALPix implementation.
    import ducc0
    for nside0, depth in [(1, 2)] + ([(2, 1), (4, 2)] if budget > 1 else []):
        g = HEALPixGrid(nside0=nside0, depth=depth)
        for l in range(depth + 1):
            ga = g.at(l)
            n = int(ga.shape[0])
            idx = np.arange(n, dtype=np.int64)[None, :]
            co = np.asarray(ga.index2coord(idx))
            base = ducc0.healpix.Healpix_Base(ga.nside, "NEST")
            ref = base.pix2vec(idx[0]).T
            if not np.allclose(co, ref, atol=1e-12):
                fail("hp-pix2vec", "HEALPix pixel centres differ from ducc0 (nside %d)" % ga.nside, kind="hp", nside0=nside0, depth=depth, level=l)
            if (np.asarray(ga.coord2index(co)).astype(np.int64) != idx).any():
                fail("coord-roundtrip", "HEALPix coord2index(index2coord(i)) != i (nside %d)" % ga.nside, kind="hp", nside0=nside0, depth=depth, level=l)
            if ga.nside >= 2:
                nb = np.asarray(ga.neighborhood(idx, (9,)))[0]
                refn = base.neighbors(idx[0])            # SW, W, NW, N, NE, E, SE, S ; -1 where missing
                if (nb[:, 0] != idx[0]).any():
                    fail("hp-neighborhood", "HEALPix window does not start with the pixel itself", kind="hp", nside0=nside0, depth=depth, level=l)
                for k in range(n):
                    have = set(int(x) for x in nb[k, 1:])
                    want = set(int(x) for x in refn[k] if x >= 0)
                    if not want <= have or not have <= want | {int(x) for x in nb[k]}:
                        fail("hp-neighborhood", "HEALPix neighbours of pixel %d differ from ducc0 (nside %d)" % (k, ga.nside), kind="hp", nside0=nside0, depth=depth, level=l)
                        break
            if l < depth:
                nxt = g.at(l + 1)
                ch = np.asarray(ga.children(idx)).reshape(1, -1)
                cco = np.asarray(nxt.index2coord(ch))
                back = np.asarray(ga.coord2index(cco)).astype(np.int64).reshape(n, -1)
                if (back != idx[0][:, None]).any():
                    fail("hp-nesting", "a HEALPix child's centre is not inside its parent pixel (nside %d)" % ga.nside, kind="hp", nside0=nside0, depth=depth, level=l)
    # SimpleOpenGrid / LogGrid: coordinates round-trip, children's coordinates nest, log-radial volumes telescope
    for kind, mk in [("simpleopen", lambda: SimpleOpenGrid(min_shape=(6, 5), splits=2, depth=2, window_size=3)),
                     ("loggrid", lambda: LogGrid(min_shape=(7,), r_min=0.5, r_max=8.0, depth=2, window_size=3))]:
        g = mk()
        for l in range(g.depth + 1):
            ga = g.at(l)
            shape = np.array([int(s) for s in ga.shape])
            nd = shape.size
            idx = np.mgrid[tuple(slice(0, s) for s in shape)].reshape(nd, -1)
            co = np.asarray(ga.index2coord(idx))
            if (np.asarray(ga.coord2index(co)).astype(np.int64) != idx).any():
                fail("coord-roundtrip", "%s: coord2index(index2coord(i)) != i at level %d" % (kind, l), kind=kind, level=l)
            if l < g.depth:
                nxt = g.at(l + 1)
                ref = np.asarray(ga.refined_indices()).reshape(nd, -1)
                ch = np.asarray(ga.children(ref)).reshape(nd, ref.shape[1], -1)
                par = np.asarray(nxt.parent(ch.reshape(nd, -1))).reshape(ch.shape)
                if (par != ref[:, :, None]).any():
                    fail("parent(children)", "%s: parent of a child is not the index at level %d" % (kind, l), kind=kind, level=l)
                vp = np.asarray(ga.index2volume(ref)).reshape(-1)
                vc = np.asarray(nxt.index2volume(ch.reshape(nd, -1))).reshape(ref.shape[1], -1).sum(axis=1) if kind == "loggrid" else None
                if kind == "loggrid":
                    if not np.allclose(vc, vp, rtol=1e-10):
                        fail("volume", "loggrid: children's radial extents do not add up to the parent's (level %d)" % l, kind=kind, level=l)
                else:
                    v1 = float(np.asarray(nxt.index2volume(ch[:, 0, :1])).ravel()[0]) * ch.shape[2]
                    if not abs(v1 - float(vp.ravel()[0])) <= 1e-12 * abs(v1):
                        fail("volume", "simpleopen: children volumes do not add up to the parent volume (level %d)" % l, kind=kind, level=l)
                # children's coordinates lie between the parent's cell edges
                lo = np.asarray(ga.index2coord(ref - 0.5))
                hi = np.asarray(ga.index2coord(ref + 0.5))
                cc = np.asarray(nxt.index2coord(ch.reshape(nd, -1))).reshape(ch.shape)
                if ((cc < lo[:, :, None] - 1e-12) | (cc > hi[:, :, None] + 1e-12)).any():
                    fail("coord-nesting", "%s: a child's coordinate lies outside its parent's cell (level %d)" % (kind, l), kind=kind, level=l)
    return fails


# --------------------------------------------------------------------------------------------------
# case generation
# --------------------------------------------------------------------------------------------------

def fixed_specs(quick):
    R = lambda s0, sp: {"kind": "reg", "shape0": list(s0), "splits": [list(x) for x in sp]}
    O = lambda s0, sp, pd: {"kind": "open", "shape0": list(s0), "splits": [list(x) for x in sp], "padding": [list(x) for x in pd]}
    H = lambda n0, d: {"kind": "hp", "nside0": n0, "depth": d}
    specs = []
    # every 1-D regular grid with shape0 <= 3, splits in {1,2,3}, depth <= 2
    for s0 in (1, 2, 3):
        for d in (0, 1, 2):
            for sp in itertools.product((1, 2, 3), repeat=d):
                if quick and ((d == 2 and s0 != 2) or (d == 0 and s0 == 2)):
                    continue
                specs.append({"bases": [R((s0,), [(x,) for x in sp])]})
    specs += [
        {"bases": [R((3, 2), [(2, 2), (2, 3)])]},
        {"bases": [R((2, 3), [(2, 2), (1, 3)])]},
        {"bases": [R((1, 2, 3), [(2, 1, 2)])]},
        {"bases": [R((2, 1, 2), [(2, 3, 1), (1, 2, 2)])]},
        {"bases": [R((3,), [(2,), (4,)])]},
        {"bases": [O((4,), [(2,), (2,)], [(1,), (1,)])]},
        {"bases": [O((4,), [(3,), (3,)], [(1,), (1,)])]},
        {"bases": [O((5,), [(2,), (3,)], [(1,), (2,)])]},
        {"bases": [O((4, 9), [(1, 2), (1, 2)], [(0, 2), (0, 2)])]},
        {"bases": [O((5, 4), [(2, 3)], [(2, 1)])]},
        {"bases": [O((3, 4, 3), [(2, 1, 2)], [(1, 0, 1)])]},
        {"bases": [H(1, 0)]}, {"bases": [H(1, 2)]}, {"bases": [H(2, 1)]},
        {"bases": [R((3,), [(2,), (2,)]), H(1, 2)]},
        {"bases": [R((2,), [(2,)]), O((5,), [(2,)], [(1,)]), R((1, 2), [(3, 1)])]},
        {"bases": [H(1, 1), O((4,), [(2,)], [(1,)])]},
    ]
    if not quick:
        specs += [{"bases": [H(2, 2)]}, {"bases": [R((3,), [(2,), (2,)]), H(2, 2), R((3, 5), [(1, 2), (1, 2)])]},
                  {"bases": [R((3, 2), [(2, 2), (2, 3), (2, 3)])]}]
    return specs


def random_specs(rng, n, max_size):
    specs = []
    tries = 0
    while len(specs) < n and tries < 50 * n:
        tries += 1
        nb = int(rng.choice([1, 1, 1, 2]))
        depth = int(rng.integers(0, 4))
        bases = []
        for _ in range(nb):
            nd = int(rng.choice([1, 1, 2, 2, 3]))
            kind = str(rng.choice(["reg", "reg", "open"]))
            splits = [[int(x) for x in rng.integers(1, 4, size=nd)] for _ in range(depth)]
            if kind == "reg":
                bases.append({"kind": "reg", "shape0": [int(x) for x in rng.integers(1, 5, size=nd)], "splits": splits})
            else:
                padding = [[int(x) for x in rng.integers(0, 3, size=nd)] for _ in range(depth)]
                # choose shape0 so that every level keeps a positive shape
                shape0 = []
                for k in range(nd):
                    need = 1
                    for l in reversed(range(depth)):
                        need = -(-need // splits[l][k]) + 2 * padding[l][k]
                    shape0.append(int(need + rng.integers(0, 3)))
                bases.append({"kind": "open", "shape0": shape0, "splits": splits, "padding": padding})
        spec = {"bases": bases}
        if max(level_sizes(spec)) <= max_size:
            specs.append(spec)
    return specs


def level_sizes(spec):
    """Number of voxels per level, computed from the description (documented recursion)."""
    depth = spec_depth(spec)
    sizes = []
    for l in range(depth + 1):
        tot = 1
        for b in spec["bases"]:
            if b["kind"] == "hp":
                tot *= 12 * b["nside0"] ** 2 * 4 ** l
                continue
            shp = list(b["shape0"])
            for ll in range(l):
                pd = b["padding"][ll] if b["kind"] == "open" else [0] * len(shp)
                shp = [s * (x - 2 * p) for s, x, p in zip(b["splits"][ll], shp, pd)]
            tot *= int(np.prod(shp))
        sizes.append(tot)
    return sizes


def gen_specs(ctx):
    rng = ctx.rng(31)
    specs = [c["spec"] for c in ctx.corpus() if "spec" in c]
    specs += fixed_specs(ctx.quick)
    specs += random_specs(rng, 8 if ctx.quick else 120, 300 if ctx.quick else 1500)
    return specs


class C31(C.Check):
    prop = "C31"
    coq_dir = "C31"
    trusted_base = [
        "Coq 8.16.1 kernel (coqc, vm_compute for the correspondence evaluation); C31 theorems are closed under the global context",
        "tr/c31_index.py: fail-closed translator of the scalar index formulas (parse, children, neighbourhood, parent, open-grid variants, OpenGrid.at step, nest digit, serial decode step, index<->coord) into coq/C31/Gen_Index.v; broadcasting subscripts are dropped (axis-separability), checked by the exhaustive correspondence",
        "hand-written broadcasting / level / flat-encoding model coq/C31/Model.v, tied by exhaustive correspondence on small grids",
        "jhealpix pixel geometry (pix2vec/vec2pix/neighbours) is not modelled; compared with ducc0's HEALPix as an oracle",
        "float64 coordinates/volumes compared as exact dyadic rationals within 1e-12 of the model's rationals",
    ]
    assumptions = [
        "indices are exact integers (int64, no overflow for the grid sizes used)",
        "jax.numpy // and % on integers are floor division and floor modulus (Coq Z.div / Z.modulo)",
        "np.rint rounds half to even (model: Prim.rint on Q)",
    ]

    def __init__(self):
        self.specs = []
        self.obs = []

    def translate(self, ctx):
        from tr import c31_index
        self.tie = "translator"
        try:
            text = c31_index.translate(os.path.join(ctx.repo, "nifty/re/multi_grid/grid.py"))
        except c31_index.Unsupported as e:
            # DESIGN.md 4.2: the source was refactored into syntax the translator does not know.
            # Fall back to the committed golden formulas; the exhaustive correspondence below then
            # decides whether they still describe the code (tie: correspondence(golden)).
            text = open(os.path.join(C.HOME, "tr", "c31_index.golden.v")).read()
            self.tie = "correspondence(golden); translator failed closed: %s" % (str(e)[:300],)
        C.write_if_changed(os.path.join(C.COQ, "C31", "Gen_Index.v"), text)

    def correspondence(self, ctx, res):
        fasteval.enable_jax_cache()
        self.specs = gen_specs(ctx)
        checks, meta = [], []
        self.obs = []
        n_idx = 0
        dist = {}
        for spec in self.specs:
            try:
                o = observe(spec)
            except Exception as e:          # the model never raises on a valid grid
                res.add_broken("correspondence", "implementation raised on a valid grid", {"spec": spec, "error": repr(e)[:300]})
                continue
            self.obs.append(o)
            for m, t in checks_for(o):
                meta.append(m)
                checks.append(t)
            n_idx += sum(len(lv["probes"]) for lv in o["levels"])
            k = "+".join(b["kind"] for b in spec["bases"])
            dist[k] = dist.get(k, 0) + 1
        bad = fasteval.eval_bools(self.prop, "corr", HEADER, checks, jobs=4)
        hints = []
        for i in bad[:6]:
            res.add_broken("correspondence", "grid.py vs coq/C31/Model.v: %s" % meta[i]["what"], meta[i])
        for i in bad:
            if meta[i]["spec"] not in hints:
                hints.append(meta[i]["spec"])
        nontrivial = {json.dumps(s, sort_keys=True) for s in self.specs if spec_depth(s) >= 1 and max(level_sizes(s)) > 1}
        res.coverage.update({
            "evaluations": len(checks), "distinct_nontrivial": len(nontrivial),
            "index_probes": n_idx,
            "rule": "one evaluation = one map (axes/children/parent/neighbourhood/coord/coord2index/volume, flat serial+nest dec/enc/children/parent/neighbourhood) on ALL voxels of one level of one grid (sampled above %d voxels) plus out-of-range probes; non-trivial grid = depth >= 1 and more than one voxel; distinct by description" % CAP_ALL,
            "samples": [{"spec": o["spec"], "finest_shape": o["levels"][-1]["shape"]} for o in self.obs[len(self.obs) // 2:len(self.obs) // 2 + 3]],
            "input_distribution": dist,
            "exhaustive_levels": sum(1 for o in self.obs for lv in o["levels"] if lv["exhaustive"]),
            "sampled_levels": sum(1 for o in self.obs for lv in o["levels"] if not lv["exhaustive"]),
            "disagreements": len(bad),
            "tie": getattr(self, "tie", "translator"),
        })
        if getattr(self, "tie", "translator") != "translator":
            res.notes.append(self.tie)
        return hints

    def oracle(self, ctx, res, hints, budget):
        rng = ctx.rng(231)
        n = 0
        specs = list(hints) + [s for s in self.specs if s not in hints]
        if budget == 1 and ctx.quick:
            # nothing is broken: the small 1-D regular family is covered by the correspondence;
            # the direct oracle runs on the structurally different grids
            specs = [s for s in specs if not (len(s["bases"]) == 1 and s["bases"][0]["kind"] == "reg"
                                              and len(s["bases"][0]["shape0"]) == 1 and spec_depth(s) < 2)]
        for spec in specs:
            try:
                fs = direct_failures(spec)
            except Exception as e:
                fs = [({"fn": "exception", "kinds": "+".join(b["kind"] for b in spec["bases"])},
                       "the implementation raised on a valid grid: %r" % (e,), {"spec": spec})]
            n += 1
            for sig, what, inp in fs[:2]:
                res.add_failing(sig, what, inp)
            if len(res.failing) >= 4:
                break
        if not res.failing:
            for sig, what, inp in direct_failures_extra(budget)[:3]:
                res.add_failing(sig, what, inp)
        if budget > 1 and not res.failing:
            for spec in random_specs(rng, 150, 3000):
                n += 1
                fs = direct_failures(spec)
                if fs:
                    res.add_failing(*fs[0])
                    break
        res.coverage["impl_property_evaluations"] = n

    def replay(self, ctx, rp):
        inp = rp["input"]
        if "spec" in inp:
            return bool(direct_failures(inp["spec"]))
        return bool(direct_failures_extra(2))


CHECK = C31()
