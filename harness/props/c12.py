"""C12 -- JAX likelihoods factor their metric and equal the Fisher information.

Tie: translator for the per-pixel formulas (tr/realexpr.py + tr/c12_spec.py -> coq/C12/Gen_Lh.v from
nifty/re/likelihood_impl.py on every run) + hand model of the row-wise Categorical formulas
(coq/C12/Model.v, polymorphic: run over Q inside coqc against the implementation, reasoned about
over R).
Correspondence: (i) generated E / M / L / t (independent Python rendering of the same IR) against
energy / metric / left_sqrt_metric / transformation of the implementation on generated data, points
and tangents; (ii) Categorical metric / left_sqrt_metric / transpose on single and batched rows
against the Coq model evaluated by vm_compute over Q (inputs exact dyadic rationals).
Direct oracle (no Coq): dense M == L R, R == L^T, L == J^T (exact kinds), M symmetric, M == exact
expectation of the score outer product over the documented data distribution, data-averaged
pull-back == M for the variable-covariance families, and the same identities after amend / sum /
freeze."""
import itertools
import math
import os
from fractions import Fraction

import numpy as np

from .. import common as C

GEN = os.path.join(C.COQ, "C12", "Gen_Lh.v")
RTOL = 1e-10


def logu(rng, lo, hi):
    return float(math.exp(rng.uniform(math.log(lo), math.log(hi))))


def close(a, b, rtol, atol=0.0):
    a, b = np.asarray(a, dtype=float), np.asarray(b, dtype=float)
    if a.shape != b.shape or not (np.all(np.isfinite(a)) and np.all(np.isfinite(b))):
        return False
    return bool(np.all(np.abs(a - b) <= atol + rtol * np.maximum(np.abs(a), np.abs(b))))


# ---------------------------------------------------------------------------------------------------
# real coordinates on pytrees (complex leaves contribute (re, im))
# ---------------------------------------------------------------------------------------------------
class TreeCoords:
    def __init__(self, example):
        import jax
        self.leaves, self.treedef = jax.tree_util.tree_flatten(example)
        self.meta = [(np.shape(l), np.iscomplexobj(l)) for l in self.leaves]
        self.n = sum(int(np.prod(s, dtype=int)) * (2 if c else 1) for s, c in self.meta)

    def to_tree(self, vec):
        import jax
        import jax.numpy as jnp
        out, pos = [], 0
        for shp, c in self.meta:
            sz = int(np.prod(shp, dtype=int))
            if c:
                v = vec[pos:pos + 2 * sz]
                out.append(jnp.asarray((v[0::2] + 1j * v[1::2]).reshape(shp)))
                pos += 2 * sz
            else:
                out.append(jnp.asarray(np.asarray(vec[pos:pos + sz], dtype=float).reshape(shp)))
                pos += sz
        return jax.tree_util.tree_unflatten(self.treedef, out)

    def to_vec(self, tree):
        import jax
        leaves = jax.tree_util.tree_leaves(tree)
        if len(leaves) != len(self.meta):
            raise ValueError("tree structure mismatch: %d leaves, expected %d" % (len(leaves), len(self.meta)))
        parts = []
        for l, (shp, c) in zip(leaves, self.meta):
            a = np.asarray(l)
            if a.shape != tuple(shp):
                raise ValueError("leaf shape %s, expected %s" % (a.shape, shp))
            a = a.reshape(-1)
            if c:
                v = np.empty(2 * a.size)
                v[0::2], v[1::2] = a.real, a.imag
                parts.append(v)
            else:
                if np.iscomplexobj(a):
                    if np.max(np.abs(a.imag), initial=0.0) > 1e-12 * (1 + np.max(np.abs(a.real), initial=0.0)):
                        raise ValueError("imaginary part in a real leaf")
                    a = a.real
                parts.append(np.asarray(a, dtype=float))
        return np.concatenate(parts) if parts else np.zeros(0)

    def dense(self, f, tgt):
        cols = []
        for j in range(self.n):
            e = np.zeros(self.n)
            e[j] = 1.0
            cols.append(tgt.to_vec(f(self.to_tree(e))))
        return np.array(cols).T


def zeros_like_swd(swd):
    import jax
    import jax.numpy as jnp
    return jax.tree_util.tree_map(lambda s: jnp.zeros(s.shape, dtype=s.dtype), swd)


def mats(lh, p, lsm_example=None, which="MLRJ", kw=None):
    """dense M, L, R (and J if a transformation exists) of a likelihood at p, over real coordinates;
    `kw`: keyword arguments handed to every method (forward-model / likelihood keyword arguments)."""
    import jax
    kw = kw or {}
    dc = TreeCoords(p)
    lc = TreeCoords(lsm_example if lsm_example is not None else zeros_like_swd(lh.lsm_tangents_shape))
    out = {"dc": dc, "lc": lc, "M": None, "L": None, "R": None, "J": None}
    if "M" in which:
        out["M"] = dc.dense(lambda v: lh.metric(p, v, **kw), dc)
    if "L" in which:
        out["L"] = lc.dense(lambda v: lh.left_sqrt_metric(p, v, **kw), dc)
    if "R" in which:
        out["R"] = dc.dense(lambda v: lh.right_sqrt_metric(p, v, **kw), lc)
    if "J" in which:
        try:
            out["J"] = dc.dense(lambda v: jax.jvp(lambda q: lh.transformation(q, **kw), (p,), (v,))[1], lc)
        except NotImplementedError:
            out["J"] = None
    return out


# ---------------------------------------------------------------------------------------------------
# instances
# ---------------------------------------------------------------------------------------------------
KINDS = ["gaussian", "gaussian_default", "gaussian_arraycov", "gaussian_cplx", "gaussian_tree", "studentt", "poisson",
         "vcg_real", "vcg_cplx", "vcstudentt", "ndvcg_cov", "ndvcg_prec", "ndvcg_batched",
         "categorical", "categorical_batched", "categorical_tree",
         "amend_poisson", "amend_vcg_real", "sum_gauss_poisson", "freeze_sum",
         "amend_cplx", "sum_cplx", "freeze_cplx",
         # forward models with keyword arguments (default and non-default values), mixed-dtype data trees,
         # narrow / unsigned / single-precision data dtypes
         "amend_kwargs", "amend_kwargs_default", "amend_kwargs_poisson", "vcg_mixed_tree",
         "poisson_u8", "poisson_i32", "categorical_i32", "categorical_u8",
         # non-default constructor keywords; freeze / amend combinations with coupled forward models
         "gaussian_stdonly", "gaussian_covonly", "studentt_arraydof", "vcstudentt_arraydof", "categorical_axis0",
         "freeze_coupled_gauss", "freeze_coupled_poisson", "freeze_coupled_first", "amend_amend", "freeze_amend_amend",
         # derivative rules of the custom matrix functions (sqrtm, logm, solve) and a 3-d covariance (in 2-d the
         # eigenvector matrix of eigh can be symmetric, which hides transposition errors)
         "matfun_rules", "ndvcg_cov3", "ndvcg_prec3",
         # forward models between spaces of different field: complex latent parameters -> real data and real -> complex
         "amend_cplx2real", "amend_cplx2real_poisson", "amend_real2cplx", "freeze_cplx2real"]
# (float32 data declares a float32 domain; evaluating it at float64 points is a dtype mismatch of the caller
#  -- jax.linear_transpose refuses it -- so single precision is exercised on the classic side only, C11)
EXACT_PULLBACK = {"gaussian", "gaussian_default", "gaussian_arraycov", "gaussian_cplx", "gaussian_tree", "studentt", "poisson",
                  "amend_poisson", "sum_gauss_poisson", "freeze_sum", "amend_cplx", "sum_cplx", "freeze_cplx",
                  "amend_kwargs", "amend_kwargs_default", "amend_kwargs_poisson", "poisson_u8", "poisson_i32",
                  "gaussian_stdonly", "gaussian_covonly", "studentt_arraydof", "freeze_coupled_gauss", "freeze_coupled_poisson",
                  "freeze_coupled_first", "amend_amend", "freeze_amend_amend",
                  "amend_cplx2real", "amend_cplx2real_poisson", "amend_real2cplx", "freeze_cplx2real"}


def krng(kind, seed):
    return np.random.Generator(np.random.PCG64([int(seed), KINDS.index(kind), 1212]))


def spd(rng, dim):
    a = rng.normal(size=(dim, dim))
    return a @ a.T + dim * np.eye(dim) * 0.5


def make(kind, seed):
    """-> dict(lh, p, [lsm_example], [expected: dict of dense matrices the composite must equal])."""
    import jax
    import jax.numpy as jnp
    import nifty.re as jft
    rng = krng(kind, seed)
    n = 3
    I = {"kind": kind, "seed": seed}
    if kind == "gaussian":
        c = logu(rng, 0.1, 10)
        d = rng.normal(size=n)
        I["lh"] = jft.Gaussian(jnp.asarray(d), noise_cov_inv=lambda x: c * x, noise_std_inv=lambda x: math.sqrt(c) * x)
        I["p"] = jnp.asarray(rng.normal(size=n))
    elif kind == "gaussian_default":
        I["lh"] = jft.Gaussian(jnp.asarray(rng.normal(size=n)))
        I["p"] = jnp.asarray(rng.normal(size=n))
    elif kind == "gaussian_arraycov":
        c = np.exp(rng.normal(size=n))
        I["lh"] = jft.Gaussian(jnp.asarray(rng.normal(size=n)), noise_cov_inv=jnp.asarray(c))
        I["p"] = jnp.asarray(rng.normal(size=n))
    elif kind == "gaussian_cplx":
        c = logu(rng, 0.1, 10)
        d = rng.normal(size=n) + 1j * rng.normal(size=n)
        I["lh"] = jft.Gaussian(jnp.asarray(d), noise_cov_inv=lambda x: c * x, noise_std_inv=lambda x: math.sqrt(c) * x)
        I["p"] = jnp.asarray(rng.normal(size=n) + 1j * rng.normal(size=n))
    elif kind == "gaussian_tree":
        c = logu(rng, 0.1, 10)
        d = jft.Vector({"a": jnp.asarray(rng.normal(size=2)), "b": jnp.asarray(rng.normal(size=(2, 2)))})
        I["lh"] = jft.Gaussian(d, noise_cov_inv=lambda x: c * x, noise_std_inv=lambda x: math.sqrt(c) * x)
        I["p"] = jft.Vector({"a": jnp.asarray(rng.normal(size=2)), "b": jnp.asarray(rng.normal(size=(2, 2)))})
    elif kind == "studentt":
        c, dof = logu(rng, 0.1, 10), logu(rng, 1.0, 20)
        I["lh"] = jft.StudentT(jnp.asarray(rng.normal(size=n)), dof, noise_cov_inv=lambda x: c * x, noise_std_inv=lambda x: math.sqrt(c) * x)
        I["p"] = jnp.asarray(rng.normal(size=n))
    elif kind == "poisson":
        x = np.exp(rng.normal(size=n))
        I["lh"] = jft.Poissonian(jnp.asarray(rng.poisson(2 * x).astype(np.int64)))
        I["p"] = jnp.asarray(x)
    elif kind in ("vcg_real", "vcg_cplx"):
        cp = kind.endswith("cplx")
        d = rng.normal(size=n) + (1j * rng.normal(size=n) if cp else 0)
        m = rng.normal(size=n) + (1j * rng.normal(size=n) if cp else 0)
        I["lh"] = jft.VariableCovarianceGaussian(jnp.asarray(d))
        I["p"] = (jnp.asarray(m), jnp.asarray(np.exp(rng.normal(size=n) * 0.5)))
    elif kind == "vcstudentt":
        dof = logu(rng, 1.0, 20)
        I["lh"] = jft.VariableCovarianceStudentT(jnp.asarray(rng.normal(size=n)), dof)
        I["p"] = (jnp.asarray(rng.normal(size=n)), jnp.asarray(np.exp(rng.normal(size=n) * 0.5)))
    elif kind in ("ndvcg_cov", "ndvcg_prec", "ndvcg_batched", "ndvcg_cov3", "ndvcg_prec3"):
        dim = 3 if kind.endswith("3") else 2
        bshape = (2,) if kind == "ndvcg_batched" else ()
        d = rng.normal(size=bshape + (dim,))
        mat = np.array([spd(rng, dim) for _ in range(int(np.prod(bshape, dtype=int)))]).reshape(bshape + (dim, dim))
        I["lh"] = jft.NDVariableCovarianceGaussian(jnp.asarray(d), covariance=(not kind.startswith("ndvcg_prec")))
        I["p"] = (jnp.asarray(rng.normal(size=bshape + (dim,))), jnp.asarray(mat))
    elif kind in ("categorical", "categorical_batched"):
        rows, K = (1, 3) if kind == "categorical" else (2, 3)
        idx = rng.integers(0, K, size=(rows, 1))
        I["lh"] = jft.Categorical(jnp.asarray(idx), axis=-1)
        I["p"] = jnp.asarray(rng.normal(size=(rows, K)))
        I["lsm_example"] = jnp.zeros((rows, K))
        I["idx"], I["K"] = idx, K
    elif kind == "categorical_tree":
        K = 3
        idx = {"a": rng.integers(0, K, size=(2, 1)), "b": rng.integers(0, K, size=(1, 1))}
        I["lh"] = jft.Categorical(jft.Vector({k: jnp.asarray(v) for k, v in idx.items()}), axis=-1)
        I["p"] = jft.Vector({k: jnp.asarray(rng.normal(size=(v.shape[0], K))) for k, v in idx.items()})
        I["lsm_example"] = jft.Vector({k: jnp.zeros((v.shape[0], K)) for k, v in idx.items()})
        I["idx"], I["K"] = idx, K
    elif kind in ("amend_poisson", "amend_vcg_real"):
        base = make("poisson" if kind == "amend_poisson" else "vcg_real", seed)
        a, b = rng.normal(size=n) * 0.3, rng.uniform(0.5, 1.5, size=n)
        if kind == "amend_poisson":
            f = lambda xi: jnp.exp(a * xi["u"]) * b + 0.1 * xi["w"] ** 2
            dom = {"u": jax.ShapeDtypeStruct((n,), jnp.float64), "w": jax.ShapeDtypeStruct((n,), jnp.float64)}
            xi = {"u": jnp.asarray(rng.normal(size=n)), "w": jnp.asarray(rng.normal(size=n))}
        else:
            f = lambda xi: (a * xi["u"] + 0.2 * xi["u"] ** 2, jnp.exp(b * xi["w"]))
            dom = {"u": jax.ShapeDtypeStruct((n,), jnp.float64), "w": jax.ShapeDtypeStruct((n,), jnp.float64)}
            xi = {"u": jnp.asarray(rng.normal(size=n)), "w": jnp.asarray(rng.normal(size=n) * 0.3)}
        I["lh"] = base["lh"].amend(f, domain=dom)
        I["p"] = xi
        I["base"], I["f"] = base, f
    elif kind in ("amend_kwargs", "amend_kwargs_default", "amend_kwargs_poisson"):
        # the forward model has a keyword argument WITH a default; the likelihood is evaluated with the
        # default (no kwargs) or with a non-default value handed through energy/metric/lsm/rsm/transformation
        def forward(x, scale=1.0):
            return jnp.exp(scale * x.tree["a"]) + scale * x.tree["b"] ** 2
        dom = jft.Vector({"a": jft.ShapeWithDtype((n,)), "b": jft.ShapeWithDtype((n,))})
        if kind == "amend_kwargs_poisson":
            base = {"lh": jft.Poissonian(jnp.asarray(rng.poisson(2.0, size=n).astype(np.int64)))}
        else:
            si = np.exp(rng.normal(size=n) * 0.3)
            base = {"lh": jft.Gaussian(jnp.asarray(rng.normal(size=n)), noise_cov_inv=lambda x: si ** 2 * x, noise_std_inv=lambda x: si * x)}
        I["kw"] = {} if kind == "amend_kwargs_default" else {"scale": 2.5 if kind == "amend_kwargs" else 0.7}
        I["lh"] = base["lh"].amend(forward, domain=dom)
        I["p"] = jft.Vector({"a": jnp.asarray(rng.normal(size=n) * 0.3), "b": jnp.asarray(rng.normal(size=n))})
        kw_ = dict(I["kw"])
        I["base"], I["f"] = base, (lambda xi: forward(xi, **kw_))
    elif kind == "vcg_mixed_tree":
        # data tree whose leaves have DIFFERENT dtypes: real and complex handling is per leaf
        cpx = lambda *shp: rng.normal(size=shp) + 1j * rng.normal(size=shp)
        data = jft.Vector({"vis": jnp.asarray(cpx(n)), "flux": jnp.asarray(rng.normal(size=n))})
        m = jft.Vector({"vis": jnp.asarray(cpx(n)), "flux": jnp.asarray(rng.normal(size=n))})
        sv = jft.Vector({"vis": jnp.asarray(np.exp(rng.normal(size=n) * 0.4)), "flux": jnp.asarray(np.exp(rng.normal(size=n) * 0.4))})
        I["lh"] = jft.VariableCovarianceGaussian(data)
        I["p"] = jft.Vector((m, sv))
        I["data"] = data
    elif kind == "gaussian_f32":
        c = logu(rng, 0.1, 10)
        I["lh"] = jft.Gaussian(jnp.asarray(rng.normal(size=n).astype(np.float32)), noise_cov_inv=lambda x: c * x, noise_std_inv=lambda x: math.sqrt(c) * x)
        I["p"] = jnp.asarray(rng.normal(size=n))
    elif kind in ("poisson_u8", "poisson_i32"):
        x = np.exp(rng.normal(size=n))
        I["lh"] = jft.Poissonian(jnp.asarray(rng.poisson(2 * x).astype(np.uint8 if kind == "poisson_u8" else np.int32)))
        I["p"] = jnp.asarray(x)
    elif kind in ("categorical_i32", "categorical_u8"):
        rows, K = 2, 3
        idx = rng.integers(0, K, size=(rows, 1)).astype(np.int32 if kind == "categorical_i32" else np.uint8)
        I["lh"] = jft.Categorical(jnp.asarray(idx), axis=-1)
        I["p"] = jnp.asarray(rng.normal(size=(rows, K)))
        I["lsm_example"] = jnp.zeros((rows, K))
        I["idx"], I["K"] = idx, K
    elif kind in ("amend_cplx", "sum_cplx", "freeze_cplx"):
        # forward models with a COMPLEX Jacobian (holomorphic, dense complex matrix + quadratic term) in
        # front of complex-data Gaussians: L = (d t)^dagger needs the conjugation of the reverse-mode derivative
        cpx = lambda *shp: rng.normal(size=shp) + 1j * rng.normal(size=shp)
        A, B = jnp.asarray(cpx(n, n)), jnp.asarray(cpx(n, n))
        c1, c2 = logu(rng, 0.3, 3), logu(rng, 0.3, 3)
        g1 = jft.Gaussian(jnp.asarray(cpx(n)), noise_cov_inv=lambda x: c1 * x, noise_std_inv=lambda x: math.sqrt(c1) * x)
        g2 = jft.Gaussian(jnp.asarray(cpx(n)), noise_cov_inv=lambda x: c2 * x, noise_std_inv=lambda x: math.sqrt(c2) * x)
        if kind == "amend_cplx":
            f = lambda x: A @ x + 0.3j * x ** 2
            I["lh"] = g1.amend(f, domain=jft.ShapeWithDtype((n,), jnp.complex128))
            I["p"] = jnp.asarray(cpx(n))
            I["base"], I["f"] = {"lh": g1}, f
        else:
            dom = jft.Vector({"u": jax.ShapeDtypeStruct((n,), jnp.complex128), "w": jax.ShapeDtypeStruct((n,), jnp.complex128)})
            f1 = lambda xi: A @ xi.tree["u"] + 0.3j * xi.tree["w"] ** 2
            f2 = lambda xi: B @ xi.tree["w"] * (1 + 0.2j * xi.tree["w"])
            l1, l2 = g1.amend(f1, domain=dom), g2.amend(f2, domain=dom)
            xi = jft.Vector({"u": jnp.asarray(cpx(n)), "w": jnp.asarray(cpx(n))})
            I["parts"] = (l1, l2)
            if kind == "sum_cplx":
                I["lh"], I["p"] = l1 + l2, xi
            else:
                full = l1 + l2
                lp, liquid = full.freeze(primals=xi, point_estimates=("w",))
                I["lh"], I["p"], I["full"], I["xi"] = lp, liquid, full, xi
    elif kind == "gaussian_stdonly":
        si = np.exp(rng.normal(size=n) * 0.4)
        I["lh"] = jft.Gaussian(jnp.asarray(rng.normal(size=n)), noise_std_inv=lambda x: si * x)      # cov_inv derived: std_inv(1)**2
        I["p"] = jnp.asarray(rng.normal(size=n))
    elif kind == "gaussian_covonly":
        ci = np.exp(rng.normal(size=n) * 0.4)
        I["lh"] = jft.Gaussian(jnp.asarray(rng.normal(size=n)), noise_cov_inv=lambda x: ci * x)      # std_inv derived: sqrt(cov_inv(1))
        I["p"] = jnp.asarray(rng.normal(size=n))
    elif kind == "studentt_arraydof":
        si, dof = np.exp(rng.normal(size=n) * 0.4), np.exp(rng.uniform(0, 3, size=n))
        I["lh"] = jft.StudentT(jnp.asarray(rng.normal(size=n)), jnp.asarray(dof), noise_std_inv=lambda x: si * x)
        I["p"] = jnp.asarray(rng.normal(size=n))
    elif kind == "vcstudentt_arraydof":
        I["lh"] = jft.VariableCovarianceStudentT(jnp.asarray(rng.normal(size=n)), jnp.asarray(np.exp(rng.uniform(0, 3, size=n))))
        I["p"] = (jnp.asarray(rng.normal(size=n)), jnp.asarray(np.exp(rng.normal(size=n) * 0.5)))
    elif kind == "categorical_axis0":
        rows, K = 2, 3
        idx = rng.integers(0, K, size=(1, rows))
        I["lh"] = jft.Categorical(jnp.asarray(idx), axis=0)
        I["p"] = jnp.asarray(rng.normal(size=(K, rows)))
        I["lsm_example"] = jnp.zeros((K, rows))
        I["idx"], I["K"] = idx, K
    elif kind in ("freeze_coupled_gauss", "freeze_coupled_poisson", "freeze_coupled_first", "amend_amend", "freeze_amend_amend"):
        # forward models that COUPLE the frozen and the liquid parameters, evaluated at non-zero frozen values
        si = np.exp(rng.normal(size=n) * 0.3)
        if kind == "freeze_coupled_poisson":
            base = jft.Poissonian(jnp.asarray(rng.poisson(4.0, size=n).astype(np.int64)))
        else:
            base = jft.Gaussian(jnp.asarray(rng.normal(size=n)), noise_std_inv=lambda x: si * x)
        dom = jft.Vector({"a": jft.ShapeWithDtype((n,)), "b": jft.ShapeWithDtype((n,))})
        fwd = lambda x: jnp.exp(0.3 * x.tree["a"]) * (2.0 + jnp.tanh(x.tree["b"]))
        xi = jft.Vector({"a": jnp.asarray(rng.normal(size=n)), "b": jnp.asarray(0.5 + rng.uniform(0.2, 1.0, size=n))})
        if kind in ("amend_amend", "freeze_amend_amend"):
            # amend twice: inner model on (c, e), outer maps (a, b) -> (c, e) and couples a and b
            inner = lambda y: jnp.exp(0.3 * y.tree["c"]) * (2.0 + jnp.tanh(y.tree["e"]))
            dom_in = jft.Vector({"c": jft.ShapeWithDtype((n,)), "e": jft.ShapeWithDtype((n,))})
            outer = lambda x: jft.Vector({"c": x.tree["a"] * x.tree["b"], "e": x.tree["b"] - 0.2 * x.tree["a"] ** 2})
            full = base.amend(inner, domain=dom_in).amend(outer, domain=dom)
            I["base"], I["f"] = {"lh": base}, (lambda x: inner(outer(x)))
        else:
            full = base.amend(fwd, domain=dom)
        if kind == "amend_amend":
            I["lh"], I["p"] = full, xi
        else:
            pe = ("a",) if kind == "freeze_coupled_first" else ("b",)
            lp, liquid = full.freeze(primals=xi, point_estimates=pe)
            I["lh"], I["p"], I["full"], I["xi"] = lp, liquid, full, xi
            I["liquid_first"] = pe == ("b",)
    elif kind in ("amend_cplx2real", "amend_cplx2real_poisson", "amend_real2cplx", "freeze_cplx2real"):
        cpx = lambda *shp: rng.normal(size=shp) + 1j * rng.normal(size=shp)
        si = np.exp(rng.normal(size=n) * 0.3)
        a = jnp.asarray(cpx(n))
        if kind == "amend_real2cplx":
            # real parameters -> complex data
            A = jnp.asarray(cpx(n, n))
            base = jft.Gaussian(jnp.asarray(cpx(n)), noise_cov_inv=lambda x: si ** 2 * x, noise_std_inv=lambda x: si * x)
            f = lambda x: A @ x + 0.3j * x ** 2
            I["lh"] = base.amend(f, domain=jft.ShapeWithDtype((n,), jnp.float64))
            I["p"] = jnp.asarray(rng.normal(size=n))
            I["base"], I["f"] = {"lh": base}, f
        else:
            # COMPLEX parameters -> real signal (not holomorphic): the reverse-mode derivative is complex for real cotangents
            if kind == "amend_cplx2real_poisson":
                base = jft.Poissonian(jnp.asarray(rng.poisson(3.0, size=n).astype(np.int64)))
                g = lambda z: jnp.exp(0.3 * (a * z).real) + jnp.abs(z) ** 2
            else:
                base = jft.Gaussian(jnp.asarray(rng.normal(size=n)), noise_std_inv=lambda x: si * x)
                g = lambda z: (a * z).real + jnp.abs(z) ** 2
            if kind == "freeze_cplx2real":
                dom = jft.Vector({"w": jft.ShapeWithDtype((n,), jnp.float64), "z": jft.ShapeWithDtype((n,), jnp.complex128)})
                f = lambda x: g(x.tree["z"]) * (2.0 + jnp.tanh(x.tree["w"]))
                xi = jft.Vector({"w": jnp.asarray(0.3 + rng.uniform(size=n)), "z": jnp.asarray(cpx(n))})
                full = base.amend(f, domain=dom)
                lp, liquid = full.freeze(primals=xi, point_estimates=("w",))
                I["lh"], I["p"], I["full"], I["xi"] = lp, liquid, full, xi
                I["liquid_first"] = False            # keys are ordered (w, z): the liquid block z is the trailing one
            else:
                I["lh"] = base.amend(g, domain=jft.ShapeWithDtype((n,), jnp.complex128))
                I["p"] = jnp.asarray(cpx(n))
                I["base"], I["f"] = {"lh": base}, g
    elif kind in ("sum_gauss_poisson", "freeze_sum"):
        g, po = make("gaussian", seed), make("poisson", seed)
        a = rng.normal(size=n) * 0.3
        dom = jft.Vector({"u": jax.ShapeDtypeStruct((n,), jnp.float64), "w": jax.ShapeDtypeStruct((n,), jnp.float64)})
        f1 = lambda xi: xi.tree["u"] * a + xi.tree["w"]
        f2 = lambda xi: jnp.exp(0.5 * xi.tree["w"])
        l1, l2 = g["lh"].amend(f1, domain=dom), po["lh"].amend(f2, domain=dom)
        xi = jft.Vector({"u": jnp.asarray(rng.normal(size=n)), "w": jnp.asarray(rng.normal(size=n) * 0.5)})
        I["parts"] = (l1, l2)
        if kind == "sum_gauss_poisson":
            I["lh"], I["p"] = l1 + l2, xi
        else:
            full = l1 + l2
            pe = ("w",)
            lp, liquid = full.freeze(primals=xi, point_estimates=pe)
            I["lh"], I["p"], I["full"], I["xi"] = lp, liquid, full, xi
    else:
        raise KeyError(kind)
    return I


# ---------------------------------------------------------------------------------------------------
# exact Fisher information / data-averaged pull-back on the implementation (small instances)
# ---------------------------------------------------------------------------------------------------
def _gh(n):
    x, w = np.polynomial.hermite_e.hermegauss(n)
    return x, w / w.sum()


def fisher_exact(kind, seed):
    """-> (M dense, E_d[score score^T] dense) or None."""
    import jax
    import jax.numpy as jnp
    import scipy.stats as st
    from scipy import integrate
    import nifty.re as jft
    rng = krng(kind, seed + 7919)
    ghx, ghw = _gh(8)
    # data-dtype variants use the procedure of their base kind with that data dtype
    pdt = {"poisson_u8": jnp.uint8, "poisson_i32": jnp.int32}.get(kind, jnp.int64)
    cdt = {"categorical_u8": np.uint8, "categorical_i32": np.int32}.get(kind, np.int64)
    fdt = np.float32 if kind == "gaussian_f32" else np.float64
    kind = {"poisson_u8": "poisson", "poisson_i32": "poisson", "categorical_u8": "categorical_batched",
            "categorical_i32": "categorical_batched", "gaussian_f32": "gaussian"}.get(kind, kind)

    def score(lh, p, dc):
        return dc.to_vec(jax.grad(lambda q: lh.energy(q))(p))

    if kind in ("gaussian", "gaussian_default", "gaussian_arraycov"):     # gaussian_tree: same code path as gaussian
        c = 1.0 if kind == "gaussian_default" else logu(rng, 0.1, 10)
        x = float(rng.normal())
        if kind == "gaussian_default":
            mk = lambda d: jft.Gaussian(jnp.asarray([d]))
        elif kind == "gaussian_arraycov":
            mk = lambda d: jft.Gaussian(jnp.asarray([d]), noise_cov_inv=jnp.asarray([c]))
        else:
            mk = lambda d: jft.Gaussian(jnp.asarray(np.array([d], dtype=fdt)), noise_cov_inv=lambda v: c * v, noise_std_inv=lambda v: math.sqrt(c) * v)
        p = jnp.asarray([x])
        dc = TreeCoords(p)
        fis = sum(w * np.outer(*(2 * [score(mk(x + e / math.sqrt(c)), p, dc)])) for e, w in zip(ghx, ghw))
        return dc.dense(lambda v: mk(x).metric(p, v), dc), fis
    if kind == "gaussian_cplx":
        c = logu(rng, 0.1, 10)
        p = jnp.asarray([complex(rng.normal(), rng.normal())])
        dc = TreeCoords(p)
        mk = lambda d: jft.Gaussian(jnp.asarray([d]), noise_cov_inv=lambda v: c * v, noise_std_inv=lambda v: math.sqrt(c) * v)

        def sc(d):
            # gradient w.r.t. (re, im): jax.grad of a real function of a complex argument returns conj(dE/dz*)-convention; use real coordinates
            return np.asarray(jax.grad(lambda v: mk(d).energy(dc.to_tree_jax(v)))(jnp.asarray(dc.to_vec(p))))
        dc.to_tree_jax = lambda v: (v[0::2] + 1j * v[1::2]).reshape((1,))
        s = 1 / math.sqrt(c)
        fis = sum(wa * wb * np.outer(*(2 * [sc(complex(p[0]) + (a + 1j * b) * s)])) for a, wa in zip(ghx, ghw) for b, wb in zip(ghx, ghw))
        return dc.dense(lambda v: mk(0j).metric(p, v), dc), fis
    if kind == "studentt":
        c, dof = logu(rng, 0.1, 10), logu(rng, 1.0, 20)
        p = jnp.asarray([0.3])
        dc = TreeCoords(p)
        mk = lambda d: jft.StudentT(jnp.asarray([d]), dof, noise_cov_inv=lambda v: c * v, noise_std_inv=lambda v: math.sqrt(c) * v)
        g = jax.jit(lambda d: jax.grad(lambda q: mk(d).energy(q))(p)[0])
        dist = st.t(df=dof)
        val, _ = integrate.quad(lambda u: dist.pdf(u) * float(g(0.3 + u / math.sqrt(c))) ** 2, -np.inf, np.inf, epsabs=1e-12, epsrel=1e-10, limit=200)
        return dc.dense(lambda v: mk(0.0).metric(p, v), dc), np.array([[val]])
    if kind == "poisson":
        x = logu(rng, 0.2, 6)
        p = jnp.asarray([x])
        dc = TreeCoords(p)
        mk = lambda d: jft.Poissonian(jnp.asarray([d], dtype=pdt))
        dmax = int(x + 12 * math.sqrt(x) + 30)
        fis = sum(st.poisson.pmf(d, x) * np.outer(*(2 * [score(mk(d), p, dc)])) for d in range(dmax + 1))
        return dc.dense(lambda v: mk(0).metric(p, v), dc), fis
    if kind in ("vcg_real", "vcg_cplx"):
        cp = kind.endswith("cplx")
        s = logu(rng, 0.4, 2.5)
        m = complex(rng.normal(), rng.normal()) if cp else float(rng.normal())
        p = (jnp.asarray([m]), jnp.asarray([s]))
        dc = TreeCoords(p)
        to_tree = lambda v: ((v[0:2][0::2] + 1j * v[0:2][1::2]).reshape((1,)), v[2:3]) if cp else (v[0:1], v[1:2])
        mk = lambda d: jft.VariableCovarianceGaussian(jnp.asarray([d]))
        g = jax.jit(lambda d, v: jax.grad(lambda q: mk(d).energy(to_tree(q)))(v))
        v0 = jnp.asarray(dc.to_vec(p))
        nodes = [(m + (a + 1j * b) / s, wa * wb) for a, wa in zip(ghx, ghw) for b, wb in zip(ghx, ghw)] if cp \
            else [(m + a / s, wa) for a, wa in zip(ghx, ghw)]
        fis = sum(w * np.outer(*(2 * [np.asarray(g(d, v0))])) for d, w in nodes)
        return dc.dense(lambda v: mk(nodes[0][0]).metric(p, v), dc), fis
    if kind == "vcstudentt":
        dof, sg, m = logu(rng, 1.0, 20), logu(rng, 0.4, 2.5), float(rng.normal())
        p = (jnp.asarray([m]), jnp.asarray([sg]))
        dc = TreeCoords(p)
        mk = lambda d: jft.VariableCovarianceStudentT(jnp.asarray([d]), dof)
        g = jax.jit(lambda d: jnp.concatenate(jax.grad(lambda q: mk(d).energy(q))(p)))
        dist = st.t(df=dof)

        def integrand(u):
            gg = np.asarray(g(m + sg * u))
            return dist.pdf(u) * np.outer(gg, gg).reshape(-1)
        val, _ = integrate.quad_vec(integrand, -np.inf, np.inf, epsabs=1e-11, epsrel=1e-10, limit=400)
        return dc.dense(lambda v: mk(0.0).metric(p, v), dc), val.reshape(2, 2)
    if kind in ("ndvcg_cov", "ndvcg_prec"):                               # ndvcg_batched: block-diagonal, dense identities only
        dim = 2
        cov = kind != "ndvcg_prec"
        mat = spd(rng, dim)
        mean = rng.normal(size=dim)
        p = (jnp.asarray(mean), jnp.asarray(mat))
        dc = TreeCoords(p)
        mk = lambda d: jft.NDVariableCovarianceGaussian(d, covariance=cov)
        g = jax.jit(lambda d: jnp.concatenate([x.reshape(-1) for x in jax.grad(lambda q: mk(d).energy(q))(p)]))
        Sigma = mat if cov else np.linalg.inv(mat)
        ch = np.linalg.cholesky(Sigma)
        fis = sum(wa * wb * np.outer(*(2 * [np.asarray(g(jnp.asarray(mean + ch @ np.array([a, b]))))]))
                  for a, wa in zip(ghx, ghw) for b, wb in zip(ghx, ghw))
        # the matrix parameter is symmetric: the Fisher information on the symmetric subspace is what the
        # metric can be compared with; project both onto symmetric tangents (a, (b+c)/2, (b+c)/2, d)
        S = np.eye(6)
        S[3, 3] = S[4, 4] = S[3, 4] = S[4, 3] = 0.5
        M = dc.dense(lambda v: mk(jnp.asarray(mean)).metric(p, v), dc)
        return S @ M @ S, S @ fis @ S
    if kind in ("categorical", "categorical_batched"):
        rows, K = (1, 3) if kind == "categorical" else (2, 3)
        p = jnp.asarray(rng.normal(size=(rows, K)))
        dc = TreeCoords(p)
        pr = np.asarray(jax.nn.softmax(p, axis=-1))
        fis = 0
        for combo in itertools.product(range(K), repeat=rows):
            w = float(np.prod([pr[r, k] for r, k in enumerate(combo)]))
            lh = jft.Categorical(jnp.asarray(np.array(combo).reshape(rows, 1).astype(cdt)), axis=-1)
            g = score(lh, p, dc)
            fis = fis + w * np.outer(g, g)
        lh0 = jft.Categorical(jnp.zeros((rows, 1), dtype=jnp.int64), axis=-1)
        return dc.dense(lambda v: lh0.metric(p, v), dc), fis
    return None


def expected_pullback(kind, seed):
    """-> (M dense, E_d[J^T J]) for the variable-covariance families."""
    import jax
    import jax.numpy as jnp
    import nifty.re as jft
    rng = krng(kind, seed + 104729)
    ghx, ghw = _gh(6)
    if kind in ("vcg_real", "vcg_cplx"):
        cp = kind.endswith("cplx")
        s = logu(rng, 0.4, 2.5)
        m = complex(rng.normal(), rng.normal()) if cp else float(rng.normal())
        p = (jnp.asarray([m]), jnp.asarray([s]))
        nodes = [(m + (a + 1j * b) / s, wa * wb) for a, wa in zip(ghx, ghw) for b, wb in zip(ghx, ghw)] if cp \
            else [(m + a / s, wa) for a, wa in zip(ghx, ghw)]
        acc = 0
        for d, w in nodes:
            mm = mats(jft.VariableCovarianceGaussian(jnp.asarray([d])), p, which="J")
            acc = acc + w * (mm["J"].T @ mm["J"])
        M = mats(jft.VariableCovarianceGaussian(jnp.asarray([nodes[0][0]])), p, which="M")["M"]
        return M, acc, None
    dim = 3 if kind.endswith("3") else 2
    cov = not kind.startswith("ndvcg_prec")
    mat, mean = spd(rng, dim), rng.normal(size=dim)
    p = (jnp.asarray(mean), jnp.asarray(mat))
    ch = np.linalg.cholesky(mat if cov else np.linalg.inv(mat))
    if dim == 3:
        ghx, ghw = _gh(3)                 # J is affine in the datum: a 3-node rule is exact for J^T J
    acc = 0
    for z in itertools.product(range(len(ghx)), repeat=dim):
        w = float(np.prod([ghw[i] for i in z]))
        dz = np.array([ghx[i] for i in z])
        mm = mats(jft.NDVariableCovarianceGaussian(jnp.asarray(mean + ch @ dz), covariance=cov), p, which="J")
        acc = acc + w * (mm["J"].T @ mm["J"])
    M = mats(jft.NDVariableCovarianceGaussian(jnp.asarray(mean), covariance=cov), p, which="M")["M"]
    # projector on symmetric matrix tangents: (1 + transposition) / 2 on the matrix block
    nn = dim + dim * dim
    S = np.eye(nn)
    K = np.zeros((dim * dim, dim * dim))
    for i in range(dim):
        for j in range(dim):
            K[i * dim + j, j * dim + i] = 1.0
    S[dim:, dim:] = (np.eye(dim * dim) + K) / 2
    # tangents that commute with the matrix parameter (polynomials in mat) + the mean block: there the
    # transformation 0.5*logm / sqrtm-solve reproduces the metric exactly in the data average
    B = np.zeros((nn, dim + dim))
    B[:dim, :dim] = np.eye(dim)
    for k in range(dim):
        B[dim:, dim + k] = np.linalg.matrix_power(mat, k).reshape(-1)
    return S @ M @ S, S @ acc @ S, B


def matfun_rules(seed):
    """Derivative rules of nifty.re.tree_math sqrtm / logm / solve on dense SPD matrices (dim 2, 3, 4)
    against the identities every derivative of these functions satisfies and against central differences."""
    import jax
    import jax.numpy as jnp
    from nifty.re.tree_math import logm, solve, sqrtm
    rng = krng("matfun_rules", seed)
    fails = []
    for dim in (2, 3, 4):
        Mx = spd(rng, dim)
        dM = rng.normal(size=(dim, dim))
        dM = dM + dM.T
        Mj, dMj = jnp.asarray(Mx), jnp.asarray(dM)
        nrm = float(np.linalg.norm(dM))
        # sqrtm: S S = M;  derivative X solves the Sylvester equation S X + X S = dM
        S, X = (np.asarray(a) for a in jax.jvp(sqrtm, (Mj,), (dMj,)))
        if not close(S @ S, Mx, 1e-10, atol=1e-12):
            fails.append(("sqrtm_value", {"dim": dim, "max |S S - M|": float(np.max(np.abs(S @ S - Mx)))}))
        if not close(S @ X + X @ S, dM, 1e-9, atol=1e-11 * nrm):
            fails.append(("sqrtm_jvp", {"dim": dim, "max |S X + X S - dM|": float(np.max(np.abs(S @ X + X @ S - dM))), "M": Mx.tolist(), "dM": dM.tolist()}))
        # reverse mode is the transpose of forward mode
        W = rng.normal(size=(dim, dim))
        _, vjp = jax.vjp(sqrtm, Mj)
        lhs, rhs = float(np.sum(W * X)), float(np.sum(np.asarray(vjp(jnp.asarray(W))[0]) * dM))
        if not close(lhs, rhs, 1e-9, atol=1e-11 * nrm):
            fails.append(("sqrtm_vjp", {"dim": dim, "<W, jvp(dM)>": lhs, "<vjp(W), dM>": rhs}))
        # logm: central differences, and d logm(M)[M] = 1
        h = 1e-5
        Lg, dL = (np.asarray(a) for a in jax.jvp(logm, (Mj,), (dMj,)))
        fd = (np.asarray(logm(jnp.asarray(Mx + h * dM))) - np.asarray(logm(jnp.asarray(Mx - h * dM)))) / (2 * h)
        if not close(dL, fd, 1e-6, atol=1e-7 * nrm):
            fails.append(("logm_jvp", {"dim": dim, "max |jvp - fd|": float(np.max(np.abs(dL - fd)))}))
        dLM = np.asarray(jax.jvp(logm, (Mj,), (Mj,))[1])
        if not close(dLM, np.eye(dim), 1e-9, atol=1e-10):
            fails.append(("logm_jvp", {"dim": dim, "d logm(M)[M] - 1": float(np.max(np.abs(dLM - np.eye(dim))))}))
        fdS = (np.asarray(sqrtm(jnp.asarray(Mx + h * dM))) - np.asarray(sqrtm(jnp.asarray(Mx - h * dM)))) / (2 * h)
        if not close(X, fdS, 1e-6, atol=1e-7 * nrm):
            fails.append(("sqrtm_jvp", {"dim": dim, "max |jvp - fd|": float(np.max(np.abs(X - fdS)))}))
        # solve(A, b): A x = b;  A dx + dA x = db
        bvec, db = rng.normal(size=dim), rng.normal(size=dim)
        xs, dx = (np.asarray(a) for a in jax.jvp(lambda A, b_: solve(A, b_), (Mj, jnp.asarray(bvec)), (dMj, jnp.asarray(db))))
        if not close(Mx @ xs, bvec, 1e-10, atol=1e-12):
            fails.append(("solve_value", {"dim": dim}))
        if not close(Mx @ dx + dM @ xs, db, 1e-9, atol=1e-11 * (1 + nrm)):
            fails.append(("solve_jvp", {"dim": dim, "max |A dx + dA x - db|": float(np.max(np.abs(Mx @ dx + dM @ xs - db)))}))
    return fails


# ---------------------------------------------------------------------------------------------------
# the direct checks on one instance
# ---------------------------------------------------------------------------------------------------
def run_instance(kind, seed, with_expectations=True):
    import jax
    import jax.numpy as jnp
    fails = []
    if kind == "matfun_rules":
        return matfun_rules(seed)
    I = make(kind, seed)
    lh, p = I["lh"], I["p"]
    cat = kind.startswith("categorical")
    kw = I.get("kw")
    mm = mats(lh, p, I.get("lsm_example"), which="ML" if cat else "MLRJ", kw=kw)
    M, L, R, J = mm["M"], mm["L"], mm["R"], mm["J"]
    sc = 1 + float(np.max(np.abs(M)))
    tol = dict(rtol=1e-9, atol=1e-11 * sc)
    if not close(M, M.T, **tol):
        fails.append(("metric_symmetric", {"M": M.tolist()}))
    if cat:
        # full-shape tangents: L L^T = M (R of full shape is the transpose of L by construction of jax.linear_transpose)
        if not close(L @ L.T, M, **tol):
            fails.append(("factor", {"L L^T": (L @ L.T).tolist(), "M": M.tolist()}))
        # the shapes the class declares (domain and lsm_tangents_shape from the data shape):
        try:
            md = mats(lh, p, None)
            ok = md["L"].shape[1] == L.shape[1] and close(md["L"] @ md["R"], M, **tol)
            det = {"declared lsm_tangents_shape": str(lh.lsm_tangents_shape), "logits shape": str(jax.tree_util.tree_map(jnp.shape, p)),
                   "max |L R - M|": float(np.max(np.abs(md["L"] @ md["R"] - M))) if md["L"].shape[0] == M.shape[0] and md["R"].shape[1] == M.shape[1] else None}
        except Exception as e:       # shape errors are the same finding
            ok, det = False, {"error": repr(e)[:200]}
        if not ok:
            fails.append(("declared_shape", det))
    else:
        if not close(L @ R, M, **tol):
            fails.append(("factor", {"L R": (L @ R).tolist(), "M": M.tolist()}))
        if not close(R, L.T, **tol):
            fails.append(("adjoint", {"R": R.tolist(), "L^T": L.T.tolist()}))
        if kind in EXACT_PULLBACK:
            if J is None or not close(L, J.T, **tol):
                fails.append(("pullback", {"L": L.tolist(), "J^T": None if J is None else J.T.tolist()}))
    # composites: what amend / sum / freeze have to produce
    if kind.startswith("amend"):
        base, f = I["base"], I["f"]
        y = f(p)
        bm = mats(base["lh"], y)
        fc = TreeCoords(y)
        Jf = mm["dc"].dense(lambda v: jax.jvp(f, (p,), (v,))[1], fc)
        if not close(M, Jf.T @ bm["M"] @ Jf, **tol):
            fails.append(("amend", {"M": M.tolist(), "Jf^T M Jf": (Jf.T @ bm["M"] @ Jf).tolist()}))
        if not close(L, Jf.T @ bm["L"], **tol):
            fails.append(("amend", {"L": L.tolist(), "Jf^T L": (Jf.T @ bm["L"]).tolist()}))
        if not close(R, bm["R"] @ Jf, **tol):
            fails.append(("amend", {"R": R.tolist(), "R Jf": (bm["R"] @ Jf).tolist()}))
        # energy and transformation see the same forward model (same keyword arguments)
        e1, e2 = float(lh.energy(p, **(kw or {}))), float(base["lh"].energy(y))
        if not close(e1, e2, 1e-12, atol=1e-12):
            fails.append(("amend", {"energy": e1, "energy of the likelihood at f(p)": e2}))
    if kind == "vcg_mixed_tree":
        # every leaf behaves like the likelihood built from that leaf alone (real: 2/s^2, complex: 4/s^2 ...):
        # metric, left square root and transformation applied leaf by leaf
        import nifty.re as jft
        rng = krng(kind, seed + 17)
        data, (m_, s_) = I["data"], p.tree
        tm = jft.Vector({k: jnp.asarray(rng.normal(size=np.shape(v)) + (1j * rng.normal(size=np.shape(v)) if np.iscomplexobj(v) else 0)) for k, v in m_.tree.items()})
        ts = jft.Vector({k: jnp.asarray(rng.normal(size=np.shape(v))) for k, v in s_.tree.items()})
        t = jft.Vector((tm, ts))
        got = {"metric": lh.metric(p, t), "left_sqrt_metric": lh.left_sqrt_metric(p, t), "transformation": lh.transformation(p)}
        for k in data.tree:
            lk = jft.VariableCovarianceGaussian(data.tree[k])
            pk, tk = (m_.tree[k], s_.tree[k]), (tm.tree[k], ts.tree[k])
            exp = {"metric": lk.metric(pk, tk), "left_sqrt_metric": lk.left_sqrt_metric(pk, tk), "transformation": lk.transformation(pk)}
            for nm in exp:
                for j in (0, 1):
                    a, b = np.asarray(got[nm][j].tree[k]), np.asarray(exp[nm][j])
                    if not (close(a.real, b.real, 1e-12, atol=1e-13) and close(a.imag, b.imag, 1e-12, atol=1e-13)):
                        fails.append(("mixed_tree", {"what": nm, "leaf": k, "component": j, "tree": str(a)[:120], "single leaf": str(b)[:120]}))
        ed = float(lh.energy(p)) - sum(float(jft.VariableCovarianceGaussian(data.tree[k]).energy((m_.tree[k], s_.tree[k]))) for k in data.tree)
        if abs(ed) > 1e-10:
            fails.append(("mixed_tree", {"what": "energy of the tree minus sum of the leaf energies", "difference": ed}))
    if kind in ("sum_gauss_poisson", "sum_cplx"):
        m1, m2 = mats(I["parts"][0], p), mats(I["parts"][1], p)
        if not close(M, m1["M"] + m2["M"], **tol):
            fails.append(("sum", {"M": M.tolist(), "M1+M2": (m1["M"] + m2["M"]).tolist()}))
        if not close(L @ L.T, m1["L"] @ m1["L"].T + m2["L"] @ m2["L"].T, **tol):
            fails.append(("sum", {"L L^T": (L @ L.T).tolist()}))
    if kind in ("freeze_sum", "freeze_cplx", "freeze_cplx2real") or kind.startswith("freeze_coupled") or kind == "freeze_amend_amend":
        fm = mats(I["full"], I["xi"])
        # coordinates of the full domain are ordered by key: the liquid block is the leading (u | a) or the
        # trailing (b, when "a" is frozen) principal block
        nl = M.shape[0]
        sl = slice(0, nl) if I.get("liquid_first", True) else slice(fm["M"].shape[0] - nl, fm["M"].shape[0])
        if not close(M, fm["M"][sl, sl], **tol):
            fails.append(("freeze", {"M": M.tolist(), "principal block": fm["M"][sl, sl].tolist()}))
        if not close(L @ L.T, (fm["L"] @ fm["L"].T)[sl, sl], **tol):
            fails.append(("freeze", {"L L^T": (L @ L.T).tolist()}))
        if not close(L, fm["L"][sl, :], **tol):
            fails.append(("freeze", {"L": L.tolist(), "liquid rows of the full L": fm["L"][sl, :].tolist()}))
        if not close(R, fm["R"][:, sl], **tol):
            fails.append(("freeze", {"R": R.tolist(), "liquid columns of the full R": fm["R"][:, sl].tolist()}))
        # the frozen likelihood is the full one with the frozen inputs inserted
        e1 = float(lh.energy(p))
        e2 = float(I["full"].energy(I["xi"]))
        if not close(e1, e2, 1e-12, atol=1e-12):
            fails.append(("freeze", {"energy": e1, "energy of the full likelihood": e2}))
    if with_expectations:
        fx = fisher_exact(kind, seed)
        if fx is not None:
            Mf, Fi = fx
            if not close(Mf, Fi, 1e-6, atol=1e-8 * (1 + float(np.max(np.abs(Mf))))):
                fails.append(("fisher", {"metric": np.asarray(Mf).tolist(), "E[score score^T]": np.asarray(Fi).tolist()}))
        if kind in ("vcg_real", "vcg_cplx", "ndvcg_cov", "ndvcg_prec", "ndvcg_cov3", "ndvcg_prec3"):
            Mv, Ev, B = expected_pullback(kind, seed)
            at = 1e-10 * (1 + float(np.max(np.abs(Mv))))
            if B is None:
                if not close(Mv, Ev, 1e-8, atol=at):
                    fails.append(("expected_pullback", {"metric": np.asarray(Mv).tolist(), "E[J^T J]": np.asarray(Ev).tolist()}))
            else:
                # N-d: exact on the mean block and on tangents commuting with the matrix parameter ...
                nd = 3 if kind.endswith("3") else 2
                gross = np.linalg.norm(Ev - Mv, 2) > 0.15 * np.linalg.norm(Mv[nd:, nd:], 2)
                if not close(B.T @ Mv @ B, B.T @ Ev @ B, 1e-8, atol=at) or gross:
                    fails.append(("expected_pullback", {"restricted metric": (B.T @ Mv @ B).tolist(), "restricted E[J^T J]": (B.T @ Ev @ B).tolist(),
                                                        "spectral deviation": float(np.linalg.norm(Ev - Mv, 2))}))
                # ... and only approximately elsewhere (log-Euclidean vs affine-invariant geometry): open known finding
                elif not close(Mv, Ev, 1e-8, atol=at):
                    fails.append(("expected_pullback_noncommuting",
                                  {"eig metric (matrix block)": np.linalg.eigvalsh(Mv[nd:, nd:]).tolist(),
                                   "eig E[J^T J] (matrix block)": np.linalg.eigvalsh(Ev[nd:, nd:]).tolist(),
                                   "relative spectral deviation": float(np.linalg.norm(Ev - Mv, 2) / np.linalg.norm(Mv[nd:, nd:], 2))}))
    return fails


# ---------------------------------------------------------------------------------------------------
# correspondence
# ---------------------------------------------------------------------------------------------------
def corr_generated(rend, seed, nrep):
    """(name, model, implementation) for the translated per-pixel formulas."""
    import jax
    import jax.numpy as jnp
    import nifty.re as jft
    R = rend
    for rep in range(nrep):
        rng = np.random.Generator(np.random.PCG64([seed, rep, 12]))
        n = 3
        c, dof = logu(rng, 0.1, 10), logu(rng, 1.0, 20)
        si = math.sqrt(c)
        d, x, v = rng.normal(size=n), rng.normal(size=n), rng.normal(size=n)
        f = lambda a: float(a)
        lh = jft.Gaussian(jnp.asarray(d), noise_cov_inv=lambda t: c * t, noise_std_inv=lambda t: si * t)
        yield "gaussian energy", sum(R["gauss_E"](c, f(a), f(b)) for a, b in zip(d, x)), float(lh.energy(jnp.asarray(x)))
        yield "gaussian metric", [R["gauss_M"](c, f(a)) for a in v], lh.metric(jnp.asarray(x), jnp.asarray(v))
        yield "gaussian lsm", [R["gauss_L"](si, f(a)) for a in v], lh.left_sqrt_metric(jnp.asarray(x), jnp.asarray(v))
        yield "gaussian transformation", [R["gauss_t"](si, f(a)) for a in x], lh.transformation(jnp.asarray(x))
        lh = jft.StudentT(jnp.asarray(d), dof, noise_cov_inv=lambda t: c * t, noise_std_inv=lambda t: si * t)
        yield "studentt energy", sum(R["studentt_E"](si, dof, f(a), f(b)) for a, b in zip(d, x)), float(lh.energy(jnp.asarray(x)))
        yield "studentt metric", [R["studentt_M"](c, dof, f(a)) for a in v], lh.metric(jnp.asarray(x), jnp.asarray(v))
        yield "studentt lsm", [R["studentt_L"](si, dof, f(a)) for a in v], lh.left_sqrt_metric(jnp.asarray(x), jnp.asarray(v))
        yield "studentt transformation", [R["studentt_t"](si, dof, f(a)) for a in x], lh.transformation(jnp.asarray(x))
        # non-default constructor keywords: only noise_std_inv / only noise_cov_inv (the other is derived), array dof
        sa, dofa = np.exp(rng.normal(size=n) * 0.4), np.exp(rng.uniform(0, 3, size=n))
        lh = jft.Gaussian(jnp.asarray(d), noise_std_inv=lambda t: sa * t)
        yield "gaussian(std_inv only) energy", sum(R["gauss_E"](f(c_ * c_), f(a), f(b)) for c_, a, b in zip(sa, d, x)), float(lh.energy(jnp.asarray(x)))
        yield "gaussian(std_inv only) metric", [R["gauss_M"](f(c_ * c_), f(a)) for c_, a in zip(sa, v)], lh.metric(jnp.asarray(x), jnp.asarray(v))
        yield "gaussian(std_inv only) lsm", [R["gauss_L"](f(c_), f(a)) for c_, a in zip(sa, v)], lh.left_sqrt_metric(jnp.asarray(x), jnp.asarray(v))
        lh = jft.Gaussian(jnp.asarray(d), noise_cov_inv=lambda t: sa ** 2 * t)
        yield "gaussian(cov_inv only) metric", [R["gauss_M"](f(c_ * c_), f(a)) for c_, a in zip(sa, v)], lh.metric(jnp.asarray(x), jnp.asarray(v))
        yield "gaussian(cov_inv only) lsm", [R["gauss_L"](f(c_), f(a)) for c_, a in zip(sa, v)], lh.left_sqrt_metric(jnp.asarray(x), jnp.asarray(v))
        yield "gaussian(cov_inv only) transformation", [R["gauss_t"](f(c_), f(a)) for c_, a in zip(sa, x)], lh.transformation(jnp.asarray(x))
        lh = jft.StudentT(jnp.asarray(d), jnp.asarray(dofa), noise_std_inv=lambda t: sa * t)
        yield "studentt(array dof, std_inv only) energy", sum(R["studentt_E"](f(c_), f(q), f(a), f(b)) for c_, q, a, b in zip(sa, dofa, d, x)), float(lh.energy(jnp.asarray(x)))
        yield "studentt(array dof, std_inv only) metric", [R["studentt_M"](f(c_ * c_), f(q), f(a)) for c_, q, a in zip(sa, dofa, v)], lh.metric(jnp.asarray(x), jnp.asarray(v))
        yield "studentt(array dof, std_inv only) lsm", [R["studentt_L"](f(c_), f(q), f(a)) for c_, q, a in zip(sa, dofa, v)], lh.left_sqrt_metric(jnp.asarray(x), jnp.asarray(v))
        # forward model from COMPLEX parameters to real data: dense M, L, R over real coordinates (re, im) against
        # J_f^T diag(gauss_M) J_f, J_f^T diag(gauss_L), diag(gauss_L) J_f built from the GENERATED per-pixel formulas
        az = jnp.asarray(rng.normal(size=n) + 1j * rng.normal(size=n))
        gfun = lambda z: (az * z).real + jnp.abs(z) ** 2
        lh = jft.Gaussian(jnp.asarray(d), noise_std_inv=lambda t: sa * t).amend(gfun, domain=jft.ShapeWithDtype((n,), jnp.complex128))
        zp = jnp.asarray(rng.normal(size=n) + 1j * rng.normal(size=n))
        mm_ = mats(lh, zp)
        Jf_ = mm_["dc"].dense(lambda t: jax.jvp(gfun, (zp,), (t,))[1], TreeCoords(jnp.zeros(n)))
        Mg = np.diag([R["gauss_M"](f(c_ * c_), 1.0) for c_ in sa])
        Lg = np.diag([R["gauss_L"](f(c_), 1.0) for c_ in sa])
        yield "amend complex->real metric", Jf_.T @ Mg @ Jf_, mm_["M"]
        yield "amend complex->real lsm", Jf_.T @ Lg, mm_["L"]
        yield "amend complex->real rsm", Lg @ Jf_, mm_["R"]
        Ac = jnp.asarray(rng.normal(size=(n, n)) + 1j * rng.normal(size=(n, n)))
        dc0 = d + 1j * rng.normal(size=n)
        hfun = lambda xr: Ac @ xr + 0.3j * xr ** 2
        lh = jft.Gaussian(jnp.asarray(dc0), noise_cov_inv=lambda t: sa ** 2 * t, noise_std_inv=lambda t: sa * t).amend(hfun, domain=jft.ShapeWithDtype((n,), jnp.float64))
        xr_ = jnp.asarray(rng.normal(size=n))
        mm_ = mats(lh, xr_)
        Jh_ = mm_["dc"].dense(lambda t: jax.jvp(hfun, (xr_,), (t,))[1], TreeCoords(jnp.zeros(n, dtype=complex)))
        M2 = np.kron(Mg, np.eye(2))
        L2 = np.kron(Lg, np.eye(2))
        yield "amend real->complex metric", Jh_.T @ M2 @ Jh_, mm_["M"]
        yield "amend real->complex lsm", Jh_.T @ L2, mm_["L"]
        yield "amend real->complex rsm", L2 @ Jh_, mm_["R"]
        xp = np.exp(rng.normal(size=n))
        dp = rng.poisson(2 * xp).astype(np.int64)
        lh = jft.Poissonian(jnp.asarray(dp))
        yield "poisson energy", sum(R["poisson_E"](f(a), f(b)) for a, b in zip(dp, xp)), float(lh.energy(jnp.asarray(xp)))
        yield "poisson metric", [R["poisson_M"](f(b), f(a)) for a, b in zip(v, xp)], lh.metric(jnp.asarray(xp), jnp.asarray(v))
        yield "poisson lsm", [R["poisson_L"](f(b), f(a)) for a, b in zip(v, xp)], lh.left_sqrt_metric(jnp.asarray(xp), jnp.asarray(v))
        yield "poisson transformation", [R["poisson_t"](f(b)) for b in xp], lh.transformation(jnp.asarray(xp))
        s = np.exp(rng.normal(size=n) * 0.5)
        m, v1 = rng.normal(size=n), rng.normal(size=n)
        lh = jft.VariableCovarianceGaussian(jnp.asarray(d))
        P, Tn = (jnp.asarray(m), jnp.asarray(s)), (jnp.asarray(v), jnp.asarray(v1))
        yield "vcg_real energy", sum(R["vcg_real_E"](f(a), f(b), f(e)) for a, b, e in zip(d, m, s)), float(lh.energy(P))
        r = lh.metric(P, Tn)
        yield "vcg_real metric", [[R["vcg_real_M0"](f(e), f(a)) for a, e in zip(v, s)], [R["vcg_real_M1"](f(e), f(a)) for a, e in zip(v1, s)]], [r[0], r[1]]
        r = lh.left_sqrt_metric(P, Tn)
        yield "vcg_real lsm", [[R["vcg_real_L0"](f(e), f(a)) for a, e in zip(v, s)], [R["vcg_real_L1"](f(e), f(a)) for a, e in zip(v1, s)]], [r[0], r[1]]
        r = lh.transformation(P)
        yield "vcg_real transformation", [[R["vcg_real_t0"](f(a), f(b), f(e)) for a, b, e in zip(d, m, s)], [R["vcg_real_t1"](f(e)) for e in s]], [r[0], r[1]]
        dc_, mc_, vc_ = d + 1j * rng.normal(size=n), m + 1j * rng.normal(size=n), v + 1j * rng.normal(size=n)
        lh = jft.VariableCovarianceGaussian(jnp.asarray(dc_))
        P, Tn = (jnp.asarray(mc_), jnp.asarray(s)), (jnp.asarray(vc_), jnp.asarray(v1))
        yield "vcg_cplx energy", sum(R["vcg_cplx_E"](f(a.real), f(a.imag), f(b.real), f(b.imag), f(e)) for a, b, e in zip(dc_, mc_, s)), float(lh.energy(P))
        r = lh.metric(P, Tn)
        yield "vcg_cplx metric", [[R["vcg_cplx_M0"](f(e), f(a.real)) for a, e in zip(vc_, s)], [R["vcg_cplx_M0im"](f(e), f(a.imag)) for a, e in zip(vc_, s)],
                                  [R["vcg_cplx_M1"](f(e), f(a)) for a, e in zip(v1, s)]], [np.real(r[0]), np.imag(r[0]), r[1]]
        r = lh.left_sqrt_metric(P, Tn)
        yield "vcg_cplx lsm", [[R["vcg_cplx_L0"](f(e), f(a.real)) for a, e in zip(vc_, s)], [R["vcg_cplx_L0im"](f(e), f(a.imag)) for a, e in zip(vc_, s)],
                               [R["vcg_cplx_L1"](f(e), f(a)) for a, e in zip(v1, s)]], [np.real(r[0]), np.imag(r[0]), r[1]]
        r = lh.transformation(P)
        yield "vcg_cplx transformation", [[R["vcg_cplx_t0"](f(a.real), f(b.real), f(e)) for a, b, e in zip(dc_, mc_, s)],
                                          [R["vcg_cplx_t0im"](f(a.imag), f(b.imag), f(e)) for a, b, e in zip(dc_, mc_, s)],
                                          [R["vcg_cplx_t1"](f(e)) for e in s]], [np.real(r[0]), np.imag(r[0]), r[1]]
        # mixed-dtype data tree: leaf "flux" real, leaf "vis" complex -- each leaf against the generated
        # real resp. complex formulas
        s2, v2 = np.exp(rng.normal(size=n) * 0.5), rng.normal(size=n)
        V_ = lambda a, b: jft.Vector({"vis": jnp.asarray(a), "flux": jnp.asarray(b)})
        lh = jft.VariableCovarianceGaussian(V_(dc_, d))
        P, Tn = jft.Vector((V_(mc_, m), V_(s, s2))), jft.Vector((V_(vc_, v), V_(v1, v2)))
        e_gen = sum(R["vcg_cplx_E"](f(a.real), f(a.imag), f(b.real), f(b.imag), f(e)) for a, b, e in zip(dc_, mc_, s)) \
            + sum(R["vcg_real_E"](f(a), f(b), f(e)) for a, b, e in zip(d, m, s2))
        yield "vcg_mixed_tree energy", e_gen, float(lh.energy(P))
        for nm, meth, g0, g0i, g1, r0, r1 in (("metric", lh.metric, "vcg_cplx_M0", "vcg_cplx_M0im", "vcg_cplx_M1", "vcg_real_M0", "vcg_real_M1"),
                                             ("lsm", lh.left_sqrt_metric, "vcg_cplx_L0", "vcg_cplx_L0im", "vcg_cplx_L1", "vcg_real_L0", "vcg_real_L1")):
            r = meth(P, Tn)
            yield "vcg_mixed_tree %s (complex leaf)" % nm, [[R[g0](f(e), f(a.real)) for a, e in zip(vc_, s)], [R[g0i](f(e), f(a.imag)) for a, e in zip(vc_, s)],
                                                            [R[g1](f(e), f(a)) for a, e in zip(v1, s)]], \
                [np.real(r[0].tree["vis"]), np.imag(r[0].tree["vis"]), r[1].tree["vis"]]
            yield "vcg_mixed_tree %s (real leaf)" % nm, [[R[r0](f(e), f(a)) for a, e in zip(v, s2)], [R[r1](f(e), f(a)) for a, e in zip(v2, s2)]], \
                [r[0].tree["flux"], r[1].tree["flux"]]
        r = lh.transformation(P)
        yield "vcg_mixed_tree transformation (complex leaf)", [[R["vcg_cplx_t0"](f(a.real), f(b.real), f(e)) for a, b, e in zip(dc_, mc_, s)],
                                                               [R["vcg_cplx_t0im"](f(a.imag), f(b.imag), f(e)) for a, b, e in zip(dc_, mc_, s)],
                                                               [R["vcg_cplx_t1"](f(e)) for e in s]], \
            [np.real(r[0].tree["vis"]), np.imag(r[0].tree["vis"]), r[1].tree["vis"]]
        yield "vcg_mixed_tree transformation (real leaf)", [[R["vcg_real_t0"](f(a), f(b), f(e)) for a, b, e in zip(d, m, s2)], [R["vcg_real_t1"](f(e)) for e in s2]], \
            [r[0].tree["flux"], r[1].tree["flux"]]
        # Poisson counts in narrow / unsigned integer dtypes
        for pdt in (np.uint8, np.int32, np.uint16):
            lhp = jft.Poissonian(jnp.asarray(dp.astype(pdt)))
            yield "poisson energy (%s data)" % np.dtype(pdt).name, sum(R["poisson_E"](f(a), f(b)) for a, b in zip(dp, xp)), float(lhp.energy(jnp.asarray(xp)))
        lh = jft.VariableCovarianceStudentT(jnp.asarray(d), dof)
        P, Tn = (jnp.asarray(m), jnp.asarray(s)), (jnp.asarray(v), jnp.asarray(v1))
        yield "vcstudentt energy", sum(R["vcst_E"](dof, f(a), f(b), f(e)) for a, b, e in zip(d, m, s)), float(lh.energy(P))
        r = lh.metric(P, Tn)
        yield "vcstudentt metric", [[R["vcst_M0"](dof, f(e), f(a)) for a, e in zip(v, s)], [R["vcst_M1"](dof, f(e), f(a)) for a, e in zip(v1, s)]], [r[0], r[1]]
        r = lh.left_sqrt_metric(P, Tn)
        yield "vcstudentt lsm", [[R["vcst_L0"](dof, f(e), f(a)) for a, e in zip(v, s)], [R["vcst_L1"](dof, f(e), f(a)) for a, e in zip(v1, s)]], [r[0], r[1]]


HEADER = "From Coq Require Import List QArith.\nImport ListNotations.\nRequire Import NV.C12.Model.\nOpen Scope Q_scope.\n"


def qlit(x):
    fr = Fraction(float(x))
    return "(%d # %d)" % (fr.numerator, fr.denominator)


def qmat(a):
    return C.clist([C.clist([qlit(x) for x in row]) for row in np.asarray(a, dtype=float)])


def corr_categorical(seed, nrep):
    """Coq terms (bool) + descriptions: the Categorical implementation vs coq/C12/Model.v over Q."""
    import jax
    import jax.numpy as jnp
    import nifty.re as jft
    checks, descr = [], []
    tolq = "(1 # 1000000000000)"
    for rep in range(nrep):
        rng = np.random.Generator(np.random.PCG64([seed, rep, 1200]))
        for rows, K in ((1, 2), (1, 4), (2, 3), (3, 2)):
            idx = rng.integers(0, K, size=(rows, 1))
            lh = jft.Categorical(jnp.asarray(idx), axis=-1)
            x = jnp.asarray(rng.normal(size=(rows, K)))
            v = np.round(rng.normal(size=(rows, K)) * 64) / 64          # dyadic tangents
            P = np.asarray(jax.nn.softmax(x, axis=-1))
            S = np.asarray(jax.nn.softmax(x, axis=-1) ** 0.5)
            m = np.asarray(lh.metric(x, jnp.asarray(v)))
            l = np.asarray(lh.left_sqrt_metric(x, jnp.asarray(v)))
            checks.append("qclose %s (qcat_metric %s %s) %s" % (tolq, qmat(P), qmat(v), qmat(m)))
            descr.append({"what": "metric", "rows": rows, "K": K, "x": np.asarray(x).tolist(), "v": v.tolist(), "implementation": m.tolist()})
            checks.append("qclose %s (qcat_lsm %s %s) %s" % (tolq, qmat(S), qmat(v), qmat(l)))
            descr.append({"what": "left_sqrt_metric", "rows": rows, "K": K, "x": np.asarray(x).tolist(), "v": v.tolist(), "implementation": l.tolist()})
            # transpose of the implementation's left square root on full-shape tangents, row 0
            lt = jax.linear_transpose(lambda t: lh.left_sqrt_metric(x, t), jnp.zeros((rows, K)))
            r = np.asarray(lt(jnp.asarray(v))[0])
            rowterms = C.clist(["qcat_rsm_row %s %s" % (C.clist([qlit(a) for a in S[i]]), C.clist([qlit(a) for a in v[i]])) for i in range(rows)])
            checks.append("qclose %s %s %s" % (tolq, rowterms, qmat(r)))
            descr.append({"what": "transpose of left_sqrt_metric", "rows": rows, "K": K, "x": np.asarray(x).tolist(), "v": v.tolist(), "implementation": r.tolist()})
    return checks, descr


class C12(C.Check):
    prop = "C12"
    coq_dir = "C12"
    trusted_base = [
        "Coq 8.16.1 kernel; axioms of the standard library's classical reals (see theorem_axioms); vm_compute for the Categorical correspondence over Q",
        "tr/realexpr.py + tr/c12_spec.py: Python ast -> real-expression IR -> Gallina text (fail closed); reading: vdot = conj(a)*b per pixel, "
        "sum = identity, noise_cov_inv / noise_std_inv = diagonal operators; Coq text and the Python rendering used by the correspondence come from "
        "the same IR (to_coq / to_py trusted to agree); R-valued transcendental functions do not compute in coqc, so that comparison runs in Python",
        "hand-written row model of Categorical.metric/left_sqrt_metric (coq/C12/Model.v), tied by evaluating the same polymorphic definitions over Q "
        "inside coqc on the implementation's softmax values (exact dyadic inputs, tolerance 1e-12); softmax, sqrt, jax.vjp / jvp / linear_transpose, "
        "sqrtm / logm / solve are oracles",
        "NDVariableCovarianceGaussian, LikelihoodWithModel / LikelihoodSum / LikelihoodPartial and the default metric / left_sqrt_metric / "
        "right_sqrt_metric are NOT modelled in Coq: covered by the direct oracle only (dense identities on the implementation)",
        "Fisher information: Gaussian data independent (proved), Poisson and variable-covariance Gaussian through named moment hypotheses, "
        "Student-t families and Categorical only by the numerical oracle (quad / finite sums on the implementation)",
    ]
    assumptions = [
        "noise_cov_inv = noise_std_inv^2 (what the constructor derives for diagonal noise; the caller's contract otherwise)",
        "data of the variable-covariance Gaussian has mean m and variance 1/s^2 per real component (consistent: C12_expectation_satisfiable)",
        "Categorical rows: p = softmax(x) sums to 1 and s_i^2 = p_i",
        "float64 rounding is outside the theorems; tolerances 1e-10 (correspondence), 1e-9 (dense identities), 1e-6 (quadrature)",
    ]

    def __init__(self):
        self.defs = None

    def translate(self, ctx):
        from tr import c12_spec
        self.defs = None
        defs, text = c12_spec.generate(ctx.repo)
        self.defs = defs
        C.write_if_changed(GEN, text)

    def correspondence(self, ctx, res):
        from tr import realexpr as T
        evals, bad, names, samples = 0, [], {}, []
        if self.defs is not None:
            rend, _ = T.compile_py(self.defs, {})
            used = set()
            tr = _Tracking(rend, used)
            for name, mod, imp in corr_generated(tr, ctx.seed, 2 if ctx.quick else 20):
                evals += 1
                names[name] = names.get(name, 0) + 1
                mod, imp = np.asarray(mod, dtype=float), np.asarray([np.asarray(a) for a in imp] if isinstance(imp, list) else imp, dtype=float)
                ok = close(mod, imp, RTOL, atol=1e-12 * (1 + float(np.max(np.abs(mod), initial=0.0))))
                if len(samples) < 4 and names[name] == 1:
                    samples.append({"case": name, "model": mod.tolist(), "implementation": imp.tolist()})
                if not ok:
                    bad.append({"case": name, "model": mod.tolist(), "implementation": imp.tolist()})
            unused = sorted({d.name for d in self.defs} - used)
            if unused:
                raise C.MachineryError("generated definitions never compared with the implementation: %s" % unused)
        checks, descr = corr_categorical(ctx.seed, 2 if ctx.quick else 12)
        badc = C.eval_cases(self.prop, "cat", HEADER, checks)
        for i in badc:
            bad.append({"case": "categorical %s (rows=%d, K=%d) vs coq/C12/Model.v" % (descr[i]["what"], descr[i]["rows"], descr[i]["K"]), **descr[i]})
        evals += len(checks)
        for d_ in descr:
            names["categorical %s rows=%d K=%d" % (d_["what"], d_["rows"], d_["K"])] = 1
        for b in bad[:4]:
            res.add_broken("correspondence", "%s" % b["case"], b)
        res.coverage.update({
            "evaluations": evals, "distinct_nontrivial": len(names),
            "rule": "generated per-pixel E/M/L/t (Python rendering of the IR) vs energy/metric/left_sqrt_metric/transformation of Gaussian, StudentT, "
                    "Poissonian, VariableCovarianceGaussian (real, complex), VariableCovarianceStudentT on 3 pixels; Categorical metric / left_sqrt_metric / "
                    "transpose for (rows, K) in (1,2),(1,4),(2,3),(3,2) vs the Coq model by vm_compute over Q (tolerance 1e-12); distinct = (class, quantity[, shape])",
            "samples": samples + [{k: descr[0][k] for k in ("what", "rows", "K", "v", "implementation")}],
            "disagreements": len(bad),
            "input_distribution": {"classes": sorted(names)},
            "generated_definitions": [d.name for d in self.defs] if self.defs else [],
        })
        return [b["case"] for b in bad]

    def oracle(self, ctx, res, hints, budget):
        cases = [(c["kind"], int(c["seed"])) for c in ctx.corpus()]
        nseed = (1 if ctx.quick else 4) * budget
        for k in KINDS:
            for j in range(nseed):
                cases.append((k, ctx.seed * 100 + j))
        n, per = 0, {}
        for kind, seed in dict.fromkeys(cases):       # corpus first, no duplicates
            if kind not in KINDS:
                continue
            try:
                fails = run_instance(kind, seed)
            except Exception as e:
                import traceback
                fails = [("raises", {"error": repr(e)[:300], "trace": traceback.format_exc()[-600:]})]
            n += 1
            per[kind] = per.get(kind, 0) + 1
            for chk, det in fails:
                fam = "categorical" if kind.startswith("categorical") else "ndvcg" if kind.startswith("ndvcg") else kind
                if any(f["signature"] == {"likelihood": fam, "check": chk} for f in res.failing):
                    continue
                res.add_failing({"likelihood": fam, "check": chk},
                                "%s: %s check fails on the implementation: %s" % (kind, chk, short(det)),
                                {"kind": kind, "seed": seed, "check": chk, "detail": det})
        res.coverage["impl_property_evaluations"] = n
        res.coverage["oracle_instances_per_kind"] = per

    def replay(self, ctx, rp):
        i = rp["input"]
        try:
            fails = run_instance(i["kind"], int(i["seed"]))
        except Exception:
            return True
        return any(chk == i["check"] for chk, _ in fails)


def short(d):
    s = repr(d)
    return s if len(s) < 400 else s[:400] + "..."


class _Tracking(dict):
    def __init__(self, rend, used):
        super().__init__(rend)
        self.used = used

    def __getitem__(self, k):
        self.used.add(k)
        return dict.__getitem__(self, k)


CHECK = C12()
