"""C25 -- The classic VI driver resumes after a crash with identical results (strategies all, latest).

Tie: hand model coq/C25/Model.v of the persistence protocol of nifty.cl.minimization.optimize_kl +
correspondence.  A real small run per save strategy is traced (every open/write/close/remove/replace
under the output directory; harness/c25_driver.py, tracer of c24_driver.py) and its operation
sequence is compared with the model's inside coqc; then for EVERY crash point of that run (kill
before operation k; variants: buffers lost / flushed / torn write) the directory exactly as the kill
leaves it is produced -- exhaustively as a snapshot taken by the traced run at that instant (what is
on disk then; unflushed buffers are not), and for a sample of points and all crash chains by really
killing a forked child with os._exit, whose directory must equal the snapshot of the same point --
classified file by file, the run is restarted on it with resume=True, and directory classification,
operation sequence and outcome of the restart (raised / number of samples / equals the uninterrupted
result) are compared with the model (vm_compute).
Direct oracle (independent of Coq): the restarted run must not raise and must return (samples, mean)
bit-identical to the uninterrupted run, for every crash point and both strategies."""
import json
import os
import re
import shutil
import subprocess
from concurrent.futures import ThreadPoolExecutor

from .. import common as C

DRIVER = os.path.join(C.HOME, "harness", "c25_driver.py")
FN = "nifty.cl.minimization.optimize_kl.optimize_kl"
HEADER = "From Coq Require Import List Arith Bool. Import ListNotations.\nRequire Import NV.C25.Model.\n"
WORKERS = 8
LOGS = ("minisanity.txt", "counting_report.txt")


def work_root(ctx):
    """Per-process scratch directory (concurrent checks of the same property must not collide)."""
    return os.path.join(ctx.run_dir(), "w%d" % os.getpid())


def clean_old_work(ctx):
    """Remove scratch directories of processes that no longer exist."""
    rd = ctx.run_dir()
    for f in os.listdir(rd):
        m = re.fullmatch(r"w(\d+)", f)
        if (m and not os.path.exists("/proc/%s" % m.group(1))) or f == "work":
            shutil.rmtree(os.path.join(rd, f), ignore_errors=True)


# ---- running the driver (batches of chains, one zygote per batch) ----------------------------
def drv_env(ctx):
    env = dict(os.environ)
    env["PYTHONPATH"] = "%s:%s:%s" % (os.path.join(C.HOME, "shim"), ctx.repo, C.HOME)
    env["OMP_NUM_THREADS"] = "1"
    env["OPENBLAS_NUM_THREADS"] = "1"
    env["MKL_NUM_THREADS"] = "1"
    env.pop("PYTHONDONTWRITEBYTECODE", None)
    env["PYTHONPYCACHEPREFIX"] = os.path.join(C.run_dir("C25"), "pycache")
    return env


def spec_of(wd, tag, case, resume, fork, crash=None, odir=None, snap_rule=None):
    k, mode, frac = crash if crash else (-1, "kill", 0.0)
    sp = {"odir": odir or os.path.join(wd, "odir"), "out": os.path.join(wd, "out_%s.json" % tag), "resume": resume,
          "crash_at": int(k), "mode": mode, "frac": float(frac), "case": case, "fork": fork}
    if snap_rule:
        sp["snap_rule"] = snap_rule
    return sp


def chain_specs(wd, case, cps, r0):
    """Real crash chain: killed runs are forked children, the final restart runs in the zygote."""
    specs = [spec_of(wd, "c%d" % i, case, r0 if i == 0 else True, True, crash=c) for i, c in enumerate(cps)]
    specs.append(spec_of(wd, "final", case, True if cps else r0, False))
    return specs


def run_jobs(ctx, tag, jobs, workers=WORKERS):
    """jobs = [[spec, ...], ...] (one list per chain, run in order).  Returns the reports per chain."""
    base = work_root(ctx)
    os.makedirs(base, exist_ok=True)
    for specs in jobs:
        for sp in specs:
            os.makedirs(os.path.dirname(sp["out"]), exist_ok=True)
            if os.path.exists(sp["out"]):
                os.remove(sp["out"])
    nb = max(1, min(workers, len(jobs)))
    slices = [jobs[i::nb] for i in range(nb)]

    def batch(i):
        path = os.path.join(base, "batch_%s_%d.json" % (tag, i))
        json.dump(slices[i], open(path, "w"))
        try:
            p = subprocess.run(["/venv/bin/python", DRIVER, "--batch", path], env=drv_env(ctx), stdout=subprocess.PIPE,
                               stderr=subprocess.STDOUT, timeout=1500, text=True)
            rc, out = p.returncode, p.stdout
        except subprocess.TimeoutExpired:
            rc, out = 124, "timeout"
        if rc != 0 or not os.path.exists(path + ".rcs"):
            raise C.MachineryError("C25 batch driver failed (rc=%s, %s):\n%s" % (rc, path, out[-2000:]))
        return json.load(open(path + ".rcs")), out
    with ThreadPoolExecutor(nb) as ex:
        res = list(ex.map(batch, range(nb)))
    out = []
    for ji, specs in enumerate(jobs):
        row = res[ji % nb][0][ji // nb]
        reps = []
        for spec, rc in zip(specs, row):
            if rc not in (0, 77) or not os.path.exists(spec["out"]):
                raise C.MachineryError("C25 driver run failed (rc=%s, out=%s):\n%s" % (rc, spec["out"], res[ji % nb][1][-1500:]))
            rep = json.load(open(spec["out"]))
            rep["rc"] = rc
            if not os.path.realpath(rep.get("nifty_file", "")).startswith(os.path.realpath(ctx.repo) + os.sep):
                raise C.MachineryError("C25 driver imported nifty from %s, not from %s" % (rep.get("nifty_file"), ctx.repo))
            reps.append(rep)
        out.append(reps)
    return out


def run_chains(ctx, tag, items):
    """items = [(workdir, case, cps, r0)]: real kill chains."""
    jobs = []
    for wd, case, cps, r0 in items:
        shutil.rmtree(wd, ignore_errors=True)
        os.makedirs(wd)
        jobs.append(chain_specs(wd, case, cps, r0))
    return run_jobs(ctx, tag, jobs)


# ---- cases ----------------------------------------------------------------------------------
def gen_configs(ctx):
    """(case, enumeration level, random crash chains, also first runs with resume=True, modelled)"""
    rng = ctx.rng(25)

    def base(strategy, n_iter, **kw):
        c = {"data": [round(float(x), 3) for x in rng.normal(size=4)], "amp": round(float(rng.uniform(0.6, 1.4)), 3),
             "icov": round(float(rng.uniform(2.0, 6.0)), 3), "pos_a": round(float(rng.uniform(-0.3, 0.3)), 3),
             "pos_b": round(float(rng.uniform(0.3, 0.8)), 3), "n_samples": 1, "n_iter": n_iter, "strategy": strategy,
             "seed": int(rng.integers(1, 2 ** 31 - 1)), "transition": True}
        c.update(kw)
        return c
    if ctx.quick:
        # The model changes between iterations in both configurations: initial_position=None (all
        # start values are drawn in iteration 0), the likelihood domain grows at a later iteration (new
        # latent keys are drawn by _normal_initialize then), and sampling controller / KL minimiser
        # differ per iteration.  Strategy all: also a chain of two non-fresh iterations (the seed
        # schedule must survive a resume between them); strategy latest: MAP, then MGVI.
        return [(base("all", 3, fresh=[True, False, False], init_none=True, grow_at=2,
                      newton_limit=[2, 3, 1], cg_limit=[3, 2, 3]), "light", 2, False, True),
                # ... with 6 mirrored sample pairs = 12 sample files (two-digit file indices)
                (base("latest", 2, n_samples=[0, 6], fresh=[True, False], init_none=True, grow_at=1,
                      newton_limit=[3, 2], cg_limit=[2, 3]), "light", 2, False, True)]
    return [
        (base("all", 3, n_samples=[1, 2, 1]), "full", 6, True, True),
        (base("latest", 3, n_samples=[1, 2, 1], fresh=[True, False, False]), "full", 6, True, True),
        (base("all", 4, fresh=[True, True, False, False]), "light", 3, False, True),
        (base("latest", 4, fresh=[bool(x) for x in [True] + list(rng.integers(0, 2, size=3) == 1)]), "kill", 2, False, True),
        (base("all", 2, geovi=True, transition=False, fresh=[True, False], n_samples=2), "light", 2, False, True),
        (base("latest", 3, geovi=True, model="expsum", point_estimates=["b"]), "medium", 4, False, True),
        (base("latest", 2, n_samples=0, transition=False), "light", 1, False, True),    # MAP only
        (base("all", 3, n_samples=[0, 1, 0], transition=False), "light", 1, False, True),  # MAP, MGVI, MAP
        (base("latest", 3, n_samples=[1, 0, 1]), "light", 1, False, True),              # MGVI, MAP, MGVI in place
        # the model changes between iterations: domain growth (once / twice, start values given or
        # drawn), changing numbers of samples, changing minimisers
        (base("all", 4, init_none=True, grow_at=2, n_samples=[1, 1, 2, 1], newton_limit=[1, 3, 2, 2], cg_limit=[2, 3, 3, 2]), "light", 3, True, True),
        (base("latest", 4, init_none=True, grow_at=1, grow2_at=3, n_samples=[1, 2, 1, 1], newton_limit=[2, 1, 3, 2]), "light", 3, False, True),
        (base("latest", 3, grow_at=2, n_samples=[0, 1, 2], cg_limit=[3, 1, 2]), "light", 2, False, True),
        (base("all", 3, n_samples=[6, 1, 7], transition=False), "kill", 1, False, True),          # > 10 sample files
        (base("all", 3, init_none=True, grow_at=int(rng.integers(1, 3)), fresh=[True, bool(rng.integers(0, 2)), bool(rng.integers(0, 2))],
              transition=False, geovi=True), "kill", 2, False, True),
    ]


def open_intervals(ops):
    cur, out = [], []
    for kind, name, *_ in ops:
        out.append(list(cur))
        if kind in ("open-w", "open-a", "open-rw"):
            cur.append(name)
        elif kind == "close" and name in cur:
            cur.remove(name)
    out.append(list(cur))
    return out


def crash_points(ops, level):
    """All crash points of a traced run at the given level (rule shared with the driver, which
    takes the snapshots: harness/c25_driver.point_variants)."""
    from ..c25_driver import point_variants
    opened = open_intervals(ops)
    pts = []
    for k, o in enumerate(ops):
        pts += [[(k, m, fr)] for m, fr in point_variants(o[0], o[1], opened[k], level)]
    pts.append([(len(ops), "kill", 0.0)])
    return pts


def chain_points(ops, rng, count):
    n = len(ops)
    out = []
    for _ in range(count):
        k1 = int(rng.integers(1, n))
        m1 = "torn" if ops[k1][0] == "write" else ["kill", "flush"][int(rng.integers(0, 2))]
        ch = [(k1, m1, 0.5)]
        for _ in range(int(rng.integers(1, 3))):
            ch.append((int(rng.integers(0, 40)), ["kill", "flush"][int(rng.integers(0, 2))], 0.0))
        out.append(ch)
    return out


def sanitize(cps, ops):
    out = []
    for i, (k, mode, frac) in enumerate(cps):
        if mode == "torn" and not (i == 0 and k < len(ops) and ops[k][0] == "write"):
            mode = "kill"
        out.append((int(k), mode, float(frac)))
    return out


# ---- Coq terms ------------------------------------------------------------------------------
def slot(s):
    if s == "latest":
        return "Lat"
    m = re.fullmatch(r"iteration_(\d+)", s)
    return "(It %d)" % int(m.group(1)) if m else None


def fname(name):
    if name == "last_finished_iteration":
        return "Marker"
    if name == "last_finished_iteration.tmp":
        return "MarkerTmp"
    if name == "minisanity.txt":
        return "MiniLog"
    if name == "counting_report.txt":
        return "CountLog"
    if name == "pickle/nifty_random_state":
        return "RandomState"
    m = re.fullmatch(r"pickle/(latest|iteration_\d+)\.(\d+)\.pickle", name)
    if m:
        return "(Sample %s %d)" % (slot(m.group(1)), int(m.group(2)))
    m = re.fullmatch(r"pickle/(latest|iteration_\d+)\.mean\.pickle", name)
    if m:
        return "(Mean %s)" % slot(m.group(1))
    m = re.fullmatch(r"pickle/energy_history_(latest|iteration_\d+)", name)
    if m:
        return "(EHist %s)" % slot(m.group(1))
    m = re.fullmatch(r"pickle/minisanity_history_(latest|iteration_\d+)", name)
    if m:
        return "(MHist %s)" % slot(m.group(1))
    return None


KINDS = {"open-w": "TOpenW", "open-a": "TOpenA", "open-r": "TOpenR", "write": "TWrite", "close": "TClose", "remove": "TRemove"}


def tok(op):
    kind, name = op[0], op[1]
    if kind == "makedirs":
        return {".": "(TMakedirs TopDir)", "pickle": "(TMakedirs PickleDir)"}.get(name)
    if kind == "replace":
        a, _, b = name.partition("->")
        fa, fb = fname(a), fname(b)
        return "(TReplace %s %s)" % (fa, fb) if fa and fb else None
    f = fname(name)
    if kind in KINDS and f:
        return "(%s %s)" % (KINDS[kind], f)
    return None


def toks(ops):
    """Token list; consecutive writes to the same file are one write (the model dumps with one)."""
    ts, prev = [], None
    for o in ops:
        if o[0] == "write" and prev is not None and prev[0] == "write" and prev[1] == o[1]:
            continue
        t = tok(o)
        if t is None:
            return None
        ts.append(t)
        prev = o
    return C.clist(ts)


def disk_obs(pre):
    """[(fname, fobs)] of the directory found by a run, or None if a file is not known to the model."""
    out = []
    for f in pre["files"]:
        n = fname(f)
        if n is None:
            return None
        if f in LOGS:
            o = "OAny"
        elif f.startswith("last_finished_iteration"):
            v = pre["marker"] if f == "last_finished_iteration" else pre.get("marker_tmp", "torn")
            o = "OTorn" if v in ("torn", "absent") else "(OInt %d)" % int(v)
        else:
            o = "OValid" if pre["loadable"].get(f) else "OTorn"
        out.append("(%s, %s)" % (n, o))
    return C.clist(out)


def nres_of(case):
    ns = case["n_samples"]
    ns = ns if isinstance(ns, list) else [ns]
    return [2 * int(ns[min(i, len(ns) - 1)]) for i in range(case["n_iter"])]


def fresh_of(case):
    fr = case.get("fresh", True)
    fr = fr if isinstance(fr, list) else [fr]
    return [bool(fr[min(i, len(fr) - 1)]) for i in range(case["n_iter"])]


def cps_coq(cps):
    return C.clist(["(%s, %s)" % (C.cnat(k), C.cbool(mode != "flush")) for k, mode, _ in cps])


def inst_of(case):
    sg = "SAll" if case["strategy"] == "all" else "SLatest"
    return "fixed_proto %s %s %s" % (sg, C.clist([C.cnat(x) for x in nres_of(case)]), C.clist([C.cbool(b) for b in fresh_of(case)]))


def chain_check(case, ref, r0, cps, reps, refname=None):
    """Boolean Coq term: the model agrees with everything observed along one crash chain
    (reps[i] = report of run number i; a run whose directory is a snapshot has no report of its own
    killed predecessor beyond the traced prefix)."""
    sg = "SAll" if case["strategy"] == "all" else "SLatest"
    inst = "fixed_proto %s %s %s" % (sg, C.clist([C.cnat(x) for x in nres_of(case)]), C.clist([C.cbool(b) for b in fresh_of(case)]))
    n = C.cnat(case["n_iter"])
    parts = []
    for i, rep in enumerate(reps):
        before = cps_coq(cps[:i])
        resume = (r0 if i == 0 else True) if i < len(cps) else (True if cps else r0)
        head = "%s %s %s %s" % (inst, n, C.cbool(r0), before)
        if rep.get("snapshot"):
            continue                      # prefix of the reference trace, which is checked on its own
        t = toks(rep["ops"])
        if t is None:
            return "false"
        obs = disk_obs(rep["pre"])
        if obs is None:
            return "false"
        if rep["outcome"] == "killed":
            # k counts traced operations; a dump has one write call (else the merged trace differs)
            if i > 0 or r0:
                parts.append("disk_ok %s %s" % (head, obs))
            parts.append("killed_trace_ok %s %s %s %s" % (head, C.cbool(resume), C.cnat(cps[i][0]), t))
        else:
            if rep["outcome"] == "ok":
                # number of residuals: a plain SampleList (MAP result) holds the position only
                nres = 0 if rep["final"].get("type") == "SampleList" else rep["final"]["n_samples"]
                oc = "(Some (%s, %s))" % (C.cnat(nres), C.cbool(rep["final"]["hash"] == ref["final"]["hash"]))
            else:
                oc = "None"
            if refname:
                parts.append("final_ok_with %s %s %s %s %s %s %s %s %s" % (inst, refname, n, C.cbool(r0), before, C.cbool(resume), obs, t, oc))
            else:
                parts.append("final_ok %s %s %s %s %s" % (head, C.cbool(resume), obs, t, oc))
    return "(" + " && ".join("(%s)" % p for p in parts) + ")"


# ---- the property, directly on the implementation --------------------------------------------
def direct_failure(ref, reps):
    fin = reps[-1]
    for r in reps:
        if r["outcome"] not in ("ok", "killed", "raised"):
            return ("driver", "driver outcome %s" % r["outcome"])
    killed = [r["killed_before"] for r in reps if r["outcome"] == "killed"]
    where = "; ".join(("%s %s" % (k[0], k[1])) if k[0] != "end" else "the return, after the last operation" for k in killed) or "after the last operation"
    if fin["outcome"] == "raised":
        return ("resume-raises", "resume=True raises %s (%s) after a kill before [%s]; marker on disk: %s"
                % (fin["error"], fin.get("detail", "")[:80], where, fin["pre"]["marker"]))
    if fin["final"]["hash"] != ref["final"]["hash"]:
        return ("resume-differs", "resume=True after a kill before [%s] silently returns (samples, mean) that differ from "
                "the uninterrupted run (marker found: %s): mean %s vs %s, %s vs %s samples"
                % (where, fin["pre"]["marker"], fin["final"]["mean"][:3], ref["final"]["mean"][:3],
                   fin["final"]["n_samples"], ref["final"]["n_samples"]))
    for j, h in fin.get("iters", {}).items():
        if ref["iters"].get(j) != h:
            return ("resume-differs", "iteration %s of the restarted run differs from the uninterrupted run" % j)
    return None


def file_class(name):
    return re.sub(r"\d+", "N", name or "")


def signature(case, kind, reps):
    killed = [r["killed_before"] for r in reps if r["outcome"] == "killed"]
    return {"fn": FN, "strategy": case["strategy"], "failure": kind,
            "file": file_class(killed[-1][1]) if killed else None}


class C25(C.Check):
    prop = "C25"
    coq_dir = "C25"
    trusted_base = [
        "Coq 8.16.1 kernel (coqc, vm_compute for the correspondence evaluation and the refutation witnesses); no axioms: all C25 theorems are closed under the global context",
        "hand-written model coq/C25/Model.v of the persistence protocol of cl.optimize_kl and ResidualSampleList.save/load (tied by trace correspondence on every run, not by translation)",
        "harness/c24_driver.py tracer + harness/c25_driver.py (fail closed: a byte-exact shadow directory built from the traced operations must equal the real directory at the end of the run); killed runs are forked children of a single-threaded zygote process",
        "disk abstraction: a file is Valid p / Buffered p / Torn; every strict prefix of a pickle or of the marker text is unloadable; os.replace and os.remove are atomic",
        "crash = process kill; durability against power loss (fsync ordering) is outside the model",
    ]
    assumptions = [
        "one iteration of the driver is a deterministic function of (mean, samples), the iteration index and the random state saved by the first run (checked by the oracle: bit-identical per-iteration hashes)",
        "the restart uses the same arguments, the same output directory and a process whose NIFTy random state equals the one of the first run at the call (same seed)",
        "no marker of another run is present when the first run starts; no other process writes to the directory; single task (comm=None)",
    ]

    def __init__(self):
        self.obs = []
        self.refs = []

    def wd(self, ctx, name):
        return os.path.join(work_root(ctx), name)

    def pseudo_killed(self, first, k):
        """Report of the (not separately executed) run that was killed before its operation k: the
        snapshot was taken by the traced uninterrupted run `first` at exactly that instant."""
        ops = first["ops"]
        return {"outcome": "killed", "killed_before": list(ops[k][:2]) if k < len(ops) else ["end", ""],
                "ops": ops[:k], "pre": first["pre"], "snapshot": True}

    # -- correspondence ----------------------------------------------------------------------
    def correspondence(self, ctx, res):
        from ..c25_driver import snap_name
        self.obs, self.refs = [], []
        clean_old_work(ctx)
        shutil.rmtree(work_root(ctx), ignore_errors=True)
        os.makedirs(work_root(ctx))
        rng = ctx.rng(2500)
        # groups: [case, stored chains or None, plan, modelled, key]
        groups = []
        for e in ctx.corpus():
            key = json.dumps(e["case"], sort_keys=True)
            for g in groups:
                if g[4] == key:
                    g[1].append((e["cps"], bool(e.get("r0", False))))
                    break
            else:
                groups.append([e["case"], [(e["cps"], bool(e.get("r0", False)))], None, bool(e.get("modelled", True)), key])
        ncorp = len(groups)
        groups += [[c, None, (lvl, nch, wr), mod, None] for c, lvl, nch, wr, mod in gen_configs(ctx)]

        # phase 1: uninterrupted runs (plain; with snapshots at every crash point; started with resume=True)
        jobs, idx = [], {}
        for gi, (case, corp, plan, modelled, _) in enumerate(groups):
            idx[(gi, "a")] = len(jobs)
            jobs.append([spec_of(self.wd(ctx, "ref%d_a" % gi), "ref", case, False, False)])
            if plan is not None:
                idx[(gi, "s")] = len(jobs)
                jobs.append([spec_of(self.wd(ctx, "ref%d_s" % gi), "ref", case, False, False,
                                     snap_rule={"level": plan[0], "dir": self.wd(ctx, "snap%d" % gi)})])
                if plan[2]:
                    idx[(gi, "r")] = len(jobs)
                    jobs.append([spec_of(self.wd(ctx, "ref%d_r" % gi), "ref", case, True, False,
                                         snap_rule={"level": "kill", "dir": self.wd(ctx, "snapr%d" % gi)})])
        import time
        t0 = time.time()
        reps1 = run_jobs(ctx, "ref", jobs, workers=3 if ctx.quick else WORKERS)
        t1 = time.time()
        refs = []
        for gi, (case, corp, plan, modelled, _) in enumerate(groups):
            ra = reps1[idx[(gi, "a")]][0]
            if ra["outcome"] != "ok":
                raise C.MachineryError("C25: the uninterrupted reference run failed: %r" % ({k: ra.get(k) for k in ("outcome", "error", "detail")},))
            for tag in ("s", "r"):
                if (gi, tag) in idx:
                    rb = reps1[idx[(gi, tag)]][0]
                    if rb["outcome"] != "ok" or ra["final"]["hash"] != rb["final"]["hash"] or ra["ops"] != rb["ops"] or ra["iters"] != rb["iters"]:
                        raise C.MachineryError("C25: two uninterrupted runs of the same configuration differ; results cannot be compared bit for bit")
            if ra["shadow_mismatch"]:
                res.add_broken("correspondence", "untraced file-system activity in the output directory",
                               {"files": ra["shadow_mismatch"], "case": case})
            refs.append(ra)
            self.refs.append((case, ra))

        # phase 2: restart on every snapshot (in the zygote), real kill chains (forked children)
        jobs, metas = [], []
        for gi, (case, corp, plan, modelled, _) in enumerate(groups):
            ref = refs[gi]
            real = []
            if corp is not None:
                real = [(sanitize(cps, ref["ops"]), r0) for cps, r0 in corp]
            else:
                lvl, nch, with_r = plan
                pts = crash_points(ref["ops"], lvl)
                taken = reps1[idx[(gi, "s")]][0]["snaps_taken"]
                if sorted((t["k"], t["mode"], round(t["frac"], 4)) for t in taken) != sorted((p[0][0], p[0][1], round(p[0][2], 4)) for p in pts):
                    raise C.MachineryError("C25: the snapshots taken do not match the crash points of the traced run")
                for t in taken:
                    wd = os.path.dirname(t["dest"])
                    jobs.append([spec_of(wd, "final", case, True, False, odir=t["dest"])])
                    metas.append((gi, [(t["k"], t["mode"], t["frac"])], False, "snapshot"))
                if with_r:
                    for t in reps1[idx[(gi, "r")]][0]["snaps_taken"][::3]:
                        wd = os.path.dirname(t["dest"])
                        jobs.append([spec_of(wd, "final", case, True, False, odir=t["dest"])])
                        metas.append((gi, [(t["k"], t["mode"], t["frac"])], True, "snapshot"))
                # really killed: a spread of single points (cross-checked against their snapshot) and chains
                step = 9 if ctx.quick else 5
                real = [(p, False) for p in pts[gi % step::step]] + [(c, False) for c in chain_points(ref["ops"], rng, nch)]
            for i, (cps, r0) in enumerate(real):
                wd = self.wd(ctx, "real%d_%d" % (gi, i))
                shutil.rmtree(wd, ignore_errors=True)
                jobs.append(chain_specs(wd, case, cps, r0))
                metas.append((gi, cps, r0, "real"))
        t2 = time.time()
        reps2 = run_jobs(ctx, "pts", jobs)
        t3 = time.time()

        checks, meta = [], []
        header = HEADER
        modes, nontrivial, snapsha = {}, set(), {}
        for gi, (case, corp, plan, modelled, _) in enumerate(groups):
            if modelled:
                checks.append(chain_check(case, refs[gi], False, [], [refs[gi]]))
                header += "Definition ref%d := Eval vm_compute in (reference_outcome %s %s).\n" % (gi, inst_of(case), C.cnat(case["n_iter"]))
                meta.append({"what": "operation sequence of the uninterrupted run", "case": case, "ops": refs[gi]["ops"]})
        n_real = 0
        for (gi, cps, r0, how), reps in zip(metas, reps2):
            case, corp, plan, modelled, _ = groups[gi]
            ref = refs[gi]
            cps = [tuple(c) for c in cps]
            if how == "snapshot":
                first = reps1[idx[(gi, "r")]][0] if r0 else ref
                reps = [self.pseudo_killed(first, cps[0][0])] + reps
                snapsha[(gi, r0, cps[0][0], cps[0][1], round(cps[0][2], 4))] = reps[-1]["pre"]["dir_sha"]
            else:
                n_real += 1
                if len(cps) == 1 and reps[0]["outcome"] == "killed":
                    want = snapsha.get((gi, r0, cps[0][0], cps[0][1], round(cps[0][2], 4)))
                    if want is not None and want != reps[-1]["pre"]["dir_sha"]:
                        raise C.MachineryError("C25: the directory left by a real kill before operation %d (%s) differs from the "
                                               "snapshot of the same crash point" % (cps[0][0], cps[0][1]))
            self.obs.append((case, ref, cps, r0, reps))
            if modelled:
                checks.append(chain_check(case, ref, r0, cps, reps, refname="ref%d" % gi))
                meta.append({"what": "crash chain (%s)" % how + (", first run with resume=True" if r0 else ""), "case": case,
                             "cps": cps, "pre": {k: v for k, v in reps[-1]["pre"].items() if k != "loadable"},
                             "final_ops": reps[-1]["ops"], "outcome": reps[-1]["outcome"]})
            for k, m, _ in cps:
                modes[m] = modes.get(m, 0) + 1
            if any(0 < k < len(ref["ops"]) for k, _, _ in cps):
                nontrivial.add((gi, r0, tuple(cps)))
        bad = C.eval_cases(self.prop, "corr", header, checks, shard=25)
        res.notes.append("wall: reference+snapshot runs %.1fs, %d restarts/real chains %.1fs, model evaluation in coqc %.1fs"
                         % (t1 - t0, len(jobs), t3 - t2, time.time() - t3))
        for i in bad[:4]:
            res.add_broken("correspondence", "cl.optimize_kl file protocol vs coq/C25/Model.v", dict(meta[i]))
        res.coverage.update({
            "evaluations": len(checks), "distinct_nontrivial": len(nontrivial),
            "rule": "per configuration (save strategies all and latest): the traced operation sequence of the uninterrupted "
                    "run, then every crash point (kill before each operation and after the last; torn writes of every "
                    "non-log file; thorough: buffers flushed, more fractions; directory = snapshot at that instant, a spread "
                    "of points and all double/triple crash chains by really killing a forked child, cross-checked against the "
                    "snapshot), each restarted for real and compared with the model on the per-file directory classification, "
                    "the operation sequence of the restart and its outcome (raised / number of samples / equal to the "
                    "uninterrupted result); non-trivial = killed strictly inside the run; distinct by (configuration, crash chain)",
            "samples": [{"cps": m.get("cps"), "marker": (m.get("pre") or {}).get("marker"), "outcome": m.get("outcome")} for m in meta[20:23]],
            "input_distribution": {"configurations": len(groups), "corpus_cases": ncorp, "crash_chains": len(self.obs),
                                   "really_killed_chains": n_real, "by_mode": modes,
                                   "by_strategy": {st: sum(1 for o in self.obs if o[0]["strategy"] == st) for st in ("all", "latest")},
                                   "ops_per_run": [len(r["ops"]) for _, r in self.refs]},
            "disagreements": len(bad), "exhaustive": False, "exhaustive_within": "all crash points of each traced run",
        })
        return bad

    # -- oracle ------------------------------------------------------------------------------
    def oracle(self, ctx, res, hints, budget):
        n = 0
        seen = set()
        for (case, ref, cps, r0, reps) in self.obs:
            n += 1
            f = direct_failure(ref, reps)
            if f:
                sig = signature(case, f[0], reps)
                key = json.dumps(sig, sort_keys=True)
                if key in seen:
                    continue
                seen.add(key)
                res.add_failing(sig, f[1], {"case": case, "cps": [list(c) for c in cps], "r0": r0})
        if budget > 1 and not res.failing and self.refs:
            rng = ctx.rng(2501)
            items, metas = [], []
            for gi, (case, ref) in enumerate(self.refs[-2:]):
                for i, cps in enumerate(crash_points(ref["ops"], "medium")[::2] + chain_points(ref["ops"], rng, 10)):
                    items.append((self.wd(ctx, "w%d_%d" % (gi, i)), case, cps, False))
                    metas.append((case, ref, cps))
            for (case, ref, cps), reps in zip(metas, run_chains(ctx, "wide", items)):
                n += 1
                f = direct_failure(ref, reps)
                if f:
                    res.add_failing(signature(case, f[0], reps), f[1], {"case": case, "cps": [list(c) for c in cps], "r0": False})
                    break
        res.coverage["impl_property_evaluations"] = n
        shutil.rmtree(work_root(ctx), ignore_errors=True)

    def replay(self, ctx, rp):
        i = rp["input"]
        case = i["case"]
        os.makedirs(work_root(ctx), exist_ok=True)
        ref = run_chains(ctx, "rref", [(self.wd(ctx, "replay_ref"), case, [], False)])[0][-1]
        reps = run_chains(ctx, "rrun", [(self.wd(ctx, "replay"), case, sanitize(i["cps"], ref["ops"]), bool(i.get("r0", False)))])[0]
        f = direct_failure(ref, reps)
        if f:
            print("  " + f[1])
        shutil.rmtree(work_root(ctx), ignore_errors=True)
        return f is not None


CHECK = C25()
