"""C30 -- Prior transforms map a standard normal to the documented distribution.

Tie: translator.  tr/realexpr.py + tr/c30_spec.py regenerate coq/C30/Gen_Prior.v from the Python
source of the tree under test on every run; Props.v proves the quantile / CDF / monotonicity /
inverse / Jacobian / moment theorems about those generated definitions.
Correspondence: every generated definition is ALSO evaluated numerically (independent Python
rendering of the same IR, transcendental functions cannot be run by vm_compute over R) and compared
with the source function it was translated from, on generated parameters and points.
Direct oracle: transform(x) against scipy.stats.<dist>.ppf(norm.cdf(x)) (isf(norm.sf(x)) in the
upper half), strict monotonicity on a grid, inverse round trips, tabulated transforms included."""
import math
import os

import numpy as np

from .. import common as C

GEN = os.path.join(C.COQ, "C30", "Gen_Prior.v")
RTOL = 1e-9          # translated formula vs its source (same float64 operations up to re-association)
XMAX = 6.0           # |x| <= 6  <=>  probabilities in [1e-9, 1 - 1e-9]


# ---- hand mirror of coq/C30/Model.v laplace_ppf / laplace_cdf (compared with SciPy below) ----------
def m_laplace_ppf(p, loc, scale):
    return loc + scale * (-math.log(2 * (1 - p)) if 0.5 < p else math.log(2 * p))


def m_laplace_cdf(y, loc, scale):
    z = (y - loc) / scale
    return 1 - math.exp(-z) / 2 if 0 < z else math.exp(z) / 2


def free_impl():
    import scipy.special as sp
    return {"Phi": lambda x: float(sp.ndtr(x)), "phi": lambda x: math.exp(-x * x / 2) / math.sqrt(2 * math.pi),
            "PhiInv": lambda p: float(sp.ndtri(p)), "laplace_ppf": m_laplace_ppf, "laplace_cdf": m_laplace_cdf}


def close(a, b, rtol, atol=0.0):
    a, b = float(a), float(b)
    if not (math.isfinite(a) and math.isfinite(b)):
        return False
    return abs(a - b) <= atol + rtol * max(abs(a), abs(b))


def logu(rng, lo, hi):
    return float(math.exp(rng.uniform(math.log(lo), math.log(hi))))


# ---- source-side evaluators for the correspondence --------------------------------------------------
def source_table():
    """defname -> (param sampler(rng) -> tuple in the Def's parameter order, source evaluator(*params))."""
    import nifty.cl as ift
    from nifty.cl.library import special_distributions as spd
    from nifty.cl.operators import normal_operators as nop
    from nifty.cl import utilities as ut
    from nifty.re.num import stats_distributions as sd

    sc = ift.DomainTuple.scalar_domain()

    def fld(x):
        return ift.Field.from_raw(sc, np.array(float(x)))

    def scal(f):
        return float(np.asarray(f.asnumpy() if hasattr(f, "asnumpy") else f))

    def jac_of(op, x):
        lin = op(ift.Linearization.make_var(fld(x)))
        return scal(lin.jac(ift.full(sc, 1.)))

    def mf(x, key="k"):
        return ift.MultiField.from_dict({key: fld(x)})

    def pos2(rng):
        return (logu(rng, 1e-2, 1e2), logu(rng, 1e-2, 1e2))

    def x_(rng):
        return float(rng.uniform(-XMAX, XMAX)) if rng.random() > 0.1 else 0.0

    def ls(rng):
        return (float(rng.normal() * 3), logu(rng, 1e-2, 1e2))

    def mm(rng):
        mode = logu(rng, 1e-2, 1e2)
        return (mode * (1 + logu(rng, 1e-2, 1e2)), mode)

    def aq(rng):
        return (1 + logu(rng, 1e-1, 20) + 1.0, logu(rng, 1e-2, 1e2))      # alpha > 2 so that var exists

    t = {}
    t["re_laplace"] = (lambda r: (logu(r, 1e-2, 1e2), x_(r)), lambda a, x: float(sd._standard_to_laplace(np.float64(x), alpha=a)))
    t["re_normal"] = (lambda r: ls(r) + (x_(r),), lambda m, s, x: float(sd._standard_to_normal(np.float64(x), mean=m, std=s)))
    t["re_normal_inv"] = (lambda r: ls(r) + (float(r.normal() * 5),), lambda m, s, y: float(sd._normal_to_standard(np.float64(y), mean=m, std=s)))
    t["re_lognormal_logmean"] = (pos2, lambda m, s: float(sd.lognormal_moments(np.float64(m), np.float64(s))[0]))
    t["re_lognormal_logstd"] = (pos2, lambda m, s: float(sd.lognormal_moments(np.float64(m), np.float64(s))[1]))
    t["re_lognormal"] = (lambda r: (float(r.normal()), logu(r, 1e-2, 3.)) + (x_(r),),
                         lambda m, s, x: float(sd._standard_to_lognormal(np.float64(x), log_mean=m, log_std=s)))
    t["re_lognormal_inv"] = (lambda r: (float(r.normal()), logu(r, 1e-2, 3.), logu(r, 1e-3, 1e3)),
                             lambda m, s, y: float(sd._lognormal_to_standard(np.float64(y), log_mean=m, log_std=s)))
    t["re_uniform"] = (lambda r: (float(r.normal() * 3), logu(r, 1e-2, 1e2), x_(r)),
                       lambda a, s, x: float(sd._standard_to_uniform(np.float64(x), a_min=a, scale=s)))
    t["re_uniform_scale"] = (lambda r: (float(r.normal() * 3), float(r.normal() * 3 + 7)),
                             lambda a, b: float(sd.uniform_prior(a, b).keywords["scale"]))
    t["cl_lognormal_logmean"] = (pos2, lambda m, s: float(ut.lognormal_moments(m, s)[0]))
    t["cl_lognormal_logsigma"] = (pos2, lambda m, s: float(ut.lognormal_moments(m, s)[1]))
    t["cl_normal"] = (lambda r: ls(r) + (x_(r),), lambda m, s, x: scal(nop.NormalTransform(m, s, "k")(mf(x))))

    def cl_lognormal(lm, lsg, x):
        # LognormalTransform(mean, sigma) composes lognormal_moments with exp(NormalTransform); feed
        # it the (mean, sigma) whose moments are (lm, lsg) is not possible in closed form, so compare
        # the translated composition instead: NormalTransform(lm, lsg).ptw("exp")
        return scal(nop.NormalTransform(lm, lsg, "k").ptw("exp")(mf(x)))
    t["cl_lognormal"] = (lambda r: (float(r.normal()), logu(r, 1e-2, 3.), x_(r)), cl_lognormal)
    t["cl_uniform"] = (lambda r: ls(r) + (x_(r),), lambda l, s, x: scal(spd.UniformOperator(sc, l, s)(fld(x))))
    t["cl_uniform_jac"] = (lambda r: ls(r) + (x_(r),), lambda l, s, x: jac_of(spd.UniformOperator(sc, l, s), x))
    t["cl_uniform_inv"] = (lambda r: (lambda l, s: (l, s, l + s * float(r.uniform(1e-6, 1 - 1e-6))))(*ls(r)),
                           lambda l, s, y: scal(spd.UniformOperator(sc, l, s).inverse(fld(y))))
    t["cl_laplace"] = (lambda r: ls(r) + (x_(r),), lambda l, s, x: scal(spd.LaplaceOperator(sc, l, s)(fld(x))))
    t["cl_laplace_jac"] = (lambda r: ls(r) + (x_(r),), lambda l, s, x: jac_of(spd.LaplaceOperator(sc, l, s), x))
    t["cl_laplace_inv"] = (lambda r: (lambda l, s: (l, s, l + s * float(r.normal() * 3)))(*ls(r)),
                           lambda l, s, y: scal(spd.LaplaceOperator(sc, l, s).inverse(fld(y))))
    t["cl_invgamma_mode_of_aq"] = (aq, lambda a, q: float(spd.InverseGammaOperator(sc, alpha=a, q=q).mode))
    t["cl_invgamma_mean_of_aq"] = (aq, lambda a, q: float(spd.InverseGammaOperator(sc, alpha=a, q=q).mean))
    t["cl_invgamma_var"] = (aq, lambda a, q: float(spd.InverseGammaOperator(sc, alpha=a, q=q).var))
    t["cl_invgamma_alpha_of_mm"] = (mm, lambda me, mo: float(spd.InverseGammaOperator(sc, mean=me, mode=mo).alpha))
    t["cl_invgamma_q_of_mm"] = (mm, lambda me, mo: float(spd.InverseGammaOperator(sc, mean=me, mode=mo).q))
    t["cl_gamma_alpha_of_mv"] = (pos2, lambda m, v: float(spd.GammaOperator(sc, mean=m, var=v).alpha))
    t["cl_gamma_theta_of_mv"] = (pos2, lambda m, v: float(spd.GammaOperator(sc, mean=m, var=v).theta))
    t["cl_gamma_mean"] = (pos2, lambda a, th: float(spd.GammaOperator(sc, alpha=a, theta=th).mean))
    t["cl_gamma_var"] = (pos2, lambda a, th: float(spd.GammaOperator(sc, alpha=a, theta=th).var))
    return t


def source_table_classes():
    """The same generated definitions against the public model CLASSES of nifty/re/prior.py
    (scalar shape, named input): defname -> (sampler, evaluator)."""
    import jax.numpy as jnp
    import nifty.re as jft

    def x_(rng):
        return float(rng.uniform(-XMAX, XMAX)) if rng.random() > 0.1 else 0.0

    def call(model, x):
        return float(model({"k": jnp.asarray(x)}))
    t = {}
    t["re_normal"] = (lambda r: (float(r.normal() * 3), logu(r, 1e-2, 1e2), x_(r)),
                      lambda m, s, x: call(jft.NormalPrior(m, s, name="k"), x))
    t["re_laplace"] = (lambda r: (logu(r, 1e-2, 1e2), x_(r)), lambda a, x: call(jft.LaplacePrior(a, name="k"), x))
    t["re_uniform"] = (lambda r: (float(r.normal() * 3), logu(r, 1e-2, 1e2), x_(r)),
                       lambda a, sc, x: call(jft.UniformPrior(a, a + sc, name="k"), x))
    return t


# ---- the direct oracle: registry of transforms -----------------------------------------------------
def ref_quantile(dist, x, **kw):
    """dist.ppf(Phi(x)) computed without cancellation in the upper half."""
    import scipy.stats as st
    x = np.asarray(x, dtype=float)
    out = np.empty_like(x)
    m = x <= 0
    out[m] = dist.ppf(st.norm.cdf(x[m]), **kw)
    out[~m] = dist.isf(st.norm.sf(x[~m]), **kw)
    return out


def transforms():
    """name -> dict(api, sample(rng)->params, make(params)->(forward, inverse|None), ref(params, x),
    rtol, atol(params), tabulated)."""
    import scipy.stats as st
    import nifty.cl as ift
    import nifty.re as jft
    from nifty.cl.library import special_distributions as spd
    from nifty.cl.operators import normal_operators as nop

    def cl_wrap(mk):
        def make(p, n):
            dom = ift.UnstructuredDomain(n)
            op = mk(dom, p)
            fwd = lambda x: op(ift.Field.from_raw(dom, np.asarray(x, dtype=float))).asnumpy()
            inv = None
            if hasattr(op, "inverse"):
                inv = lambda y: op.inverse(ift.Field.from_raw(dom, np.asarray(y, dtype=float))).asnumpy()
            return fwd, inv
        return make

    def cl_keyed(mk):
        def make(p, n):
            op = mk(p, n)
            dom = op.domain
            fwd = lambda x: op(ift.MultiField.from_dict({"k": ift.Field.from_raw(dom["k"], np.asarray(x, dtype=float))})).asnumpy()
            return fwd, None
        return make

    def re_wrap(fw, iv=None):
        def make(p, n):
            f = fw(p)
            g = iv(p) if iv is not None else None
            return (lambda x: np.asarray(f(np.asarray(x, dtype=float)))), \
                   ((lambda y: np.asarray(g(np.asarray(y, dtype=float)))) if g is not None else None)
        return make

    def lnpar(mean, std):
        s2 = math.log1p((std / mean) ** 2)
        return math.log(mean) - s2 / 2, math.sqrt(s2)

    T = {}
    ms = lambda r: {"mean": float(r.normal() * 3), "std": logu(r, 1e-2, 1e2)}
    pms = lambda r: {"mean": logu(r, 1e-2, 1e2), "std": logu(r, 1e-2, 1e2)}
    T["re.normal_prior"] = dict(api="re", sample=ms, tab=False, rtol=1e-9, atol=lambda p: 1e-9 * p["std"],
                                make=re_wrap(lambda p: jft.normal_prior(p["mean"], p["std"]), lambda p: jft.normal_invprior(p["mean"], p["std"])),
                                ref=lambda p, x: ref_quantile(st.norm, x, loc=p["mean"], scale=p["std"]))

    def ln_ref(p, x):
        mu, sg = lnpar(p["mean"], p["std"])
        return ref_quantile(st.lognorm, x, s=sg, scale=math.exp(mu))
    T["re.lognormal_prior"] = dict(api="re", sample=pms, tab=False, rtol=1e-8, atol=lambda p: 0.0,
                                   make=re_wrap(lambda p: jft.lognormal_prior(p["mean"], p["std"]), lambda p: jft.lognormal_invprior(p["mean"], p["std"])),
                                   ref=ln_ref)
    ab = lambda r: (lambda a, w: {"a_min": a, "a_max": a + w})(float(r.normal() * 3), logu(r, 1e-2, 1e2))
    T["re.uniform_prior"] = dict(api="re", sample=ab, tab=False, rtol=1e-9, atol=lambda p: 1e-9 * (p["a_max"] - p["a_min"]),
                                 make=re_wrap(lambda p: jft.uniform_prior(p["a_min"], p["a_max"])),
                                 ref=lambda p, x: ref_quantile(st.uniform, x, loc=p["a_min"], scale=p["a_max"] - p["a_min"]))
    T["re.uniform_prior01"] = dict(api="re", sample=lambda r: {}, tab=False, rtol=1e-9, atol=lambda p: 1e-9,
                                   make=re_wrap(lambda p: jft.uniform_prior(0.0, 1.0)),
                                   ref=lambda p, x: ref_quantile(st.uniform, x))
    al = lambda r: {"alpha": logu(r, 1e-2, 1e2)}
    T["re.laplace_prior"] = dict(api="re", sample=al, tab=False, rtol=1e-9, atol=lambda p: 1e-9 * p["alpha"],
                                 make=re_wrap(lambda p: jft.laplace_prior(p["alpha"])),
                                 ref=lambda p, x: ref_quantile(st.laplace, x, scale=p["alpha"]))
    ig = lambda r: {"a": logu(r, 0.5, 20.), "scale": logu(r, 1e-2, 1e2)}
    from nifty.re.num import stats_distributions as sd
    T["re.invgamma_prior"] = dict(api="re", sample=ig, tab=True, rtol=2e-4, atol=lambda p: 0.0,
                                  make=re_wrap(lambda p: jft.invgamma_prior(p["a"], p["scale"]), lambda p: sd.invgamma_invprior(p["a"], p["scale"])),
                                  ref=lambda p, x: ref_quantile(st.invgamma, x, a=p["a"], scale=p["scale"]))
    igl = lambda r: {"a": logu(r, 0.5, 20.), "scale": logu(r, 1e-2, 1e2), "loc": float(r.normal())}
    T["re.invgamma_prior_loc"] = dict(api="re", sample=igl, tab=True, rtol=2e-4, atol=lambda p: 2e-4 * abs(p["loc"]),
                                      make=re_wrap(lambda p: jft.invgamma_prior(p["a"], p["scale"], p["loc"]),
                                                   lambda p: sd.invgamma_invprior(p["a"], p["scale"], p["loc"])),
                                      ref=lambda p, x: ref_quantile(st.invgamma, x, a=p["a"], scale=p["scale"], loc=p["loc"]))
    # the public model classes of nifty/re/prior.py, every parameter non-default (name, shape, loc, step)
    def cls_wrap(mk, iv=None):
        def make(p, n):
            import jax.numpy as jnp
            model = mk(p, n)
            g = iv(p) if iv is not None else None
            return (lambda x: np.asarray(model({"k": jnp.asarray(np.asarray(x, dtype=float))}))), \
                   ((lambda y: np.asarray(g(np.asarray(y, dtype=float)))) if g is not None else None)
        return make
    T["re.NormalPrior"] = dict(api="re", sample=ms, tab=False, rtol=1e-9, atol=lambda p: 1e-9 * p["std"],
                               make=cls_wrap(lambda p, n: jft.NormalPrior(p["mean"], p["std"], name="k", shape=(n,)),
                                             lambda p: jft.normal_invprior(p["mean"], p["std"])),
                               ref=lambda p, x: ref_quantile(st.norm, x, loc=p["mean"], scale=p["std"]))
    T["re.LogNormalPrior"] = dict(api="re", sample=pms, tab=False, rtol=1e-8, atol=lambda p: 0.0,
                                  make=cls_wrap(lambda p, n: jft.LogNormalPrior(p["mean"], p["std"], name="k", shape=(n,)),
                                                lambda p: jft.lognormal_invprior(p["mean"], p["std"])), ref=ln_ref)
    T["re.UniformPrior"] = dict(api="re", sample=ab, tab=False, rtol=1e-9, atol=lambda p: 1e-9 * (p["a_max"] - p["a_min"]),
                                make=cls_wrap(lambda p, n: jft.UniformPrior(p["a_min"], p["a_max"], name="k", shape=(n,))),
                                ref=lambda p, x: ref_quantile(st.uniform, x, loc=p["a_min"], scale=p["a_max"] - p["a_min"]))
    T["re.LaplacePrior"] = dict(api="re", sample=al, tab=False, rtol=1e-9, atol=lambda p: 1e-9 * p["alpha"],
                                make=cls_wrap(lambda p, n: jft.LaplacePrior(p["alpha"], name="k", shape=(n,))),
                                ref=lambda p, x: ref_quantile(st.laplace, x, scale=p["alpha"]))
    T["re.InvGammaPrior"] = dict(api="re", sample=igl, tab=True, rtol=2e-4, atol=lambda p: 2e-4 * abs(p["loc"]),
                                 make=cls_wrap(lambda p, n: jft.InvGammaPrior(p["a"], p["scale"], loc=p["loc"], step=5e-3, name="k", shape=(n,)),
                                               lambda p: sd.invgamma_invprior(p["a"], p["scale"], p["loc"], step=5e-3)),
                                 ref=lambda p, x: ref_quantile(st.invgamma, x, a=p["a"], scale=p["scale"], loc=p["loc"]))
    # classic
    T["cl.NormalTransform"] = dict(api="cl", sample=ms, tab=False, rtol=1e-9, atol=lambda p: 1e-9 * p["std"],
                                   make=cl_keyed(lambda p, n: nop.NormalTransform(p["mean"], p["std"], "k", n)),
                                   ref=lambda p, x: ref_quantile(st.norm, x, loc=p["mean"], scale=p["std"]))
    T["cl.LognormalTransform"] = dict(api="cl", sample=pms, tab=False, rtol=1e-8, atol=lambda p: 0.0,
                                      make=cl_keyed(lambda p, n: nop.LognormalTransform(p["mean"], p["std"], "k", n)), ref=ln_ref)
    lsc = lambda r: {"loc": float(r.normal() * 3), "scale": logu(r, 1e-2, 1e2)}
    T["cl.UniformOperator"] = dict(api="cl", sample=lsc, tab=False, rtol=1e-9, atol=lambda p: 1e-9 * p["scale"],
                                   make=cl_wrap(lambda d, p: spd.UniformOperator(d, p["loc"], p["scale"])),
                                   ref=lambda p, x: ref_quantile(st.uniform, x, loc=p["loc"], scale=p["scale"]))
    # LaplaceOperator evaluates laplace.ppf(norm._cdf(x)): 1 - Phi(x) cancels for x > 0, the result is
    # accurate to about eps / (1 - Phi(x)) there: <= 2.3e-7 * scale at x = 6 (measured 5.3e-8)
    T["cl.LaplaceOperator"] = dict(api="cl", sample=lsc, tab=False, rtol=1e-9, atol=lambda p: 1e-6 * p["scale"],
                                   make=cl_wrap(lambda d, p: spd.LaplaceOperator(d, p["loc"], p["scale"])),
                                   ref=lambda p, x: ref_quantile(st.laplace, x, loc=p["loc"], scale=p["scale"]))
    aq = lambda r: {"alpha": logu(r, 0.5, 20.), "q": logu(r, 1e-2, 1e2)}
    T["cl.InverseGammaOperator"] = dict(api="cl", sample=aq, tab=True, rtol=1e-6, atol=lambda p: 0.0,
                                        make=cl_wrap(lambda d, p: spd.InverseGammaOperator(d, alpha=p["alpha"], q=p["q"])),
                                        ref=lambda p, x: ref_quantile(st.invgamma, x, a=p["alpha"], scale=p["q"]))
    def ig_attrs(p):
        # documented moments of the operator's target distribution against scipy.stats.invgamma
        op = spd.InverseGammaOperator(ift.UnstructuredDomain(1), alpha=p["alpha"], q=p["q"])
        d = st.invgamma(a=p["alpha"], scale=p["q"])
        out = [("mode", float(d.pdf(op.mode)), max(float(d.pdf(op.mode * (1 - 1e-3))), float(d.pdf(op.mode * (1 + 1e-3)))), "ge")]
        if p["alpha"] > 1.05:
            out.append(("mean", float(op.mean), float(d.mean()), "eq"))
        if p["alpha"] > 2.05:
            out.append(("var", float(op.var), float(d.var()), "eq"))
        return out
    T["cl.InverseGammaOperator"]["attrs"] = ig_attrs

    def ig_mm_attrs(p):
        op = spd.InverseGammaOperator(ift.UnstructuredDomain(1), mode=p["mode"], mean=p["mean"])
        d = st.invgamma(a=op.alpha, scale=op.q)
        return [("mean", float(d.mean()), p["mean"], "eq"),
                ("mode", float(d.pdf(p["mode"])), max(float(d.pdf(p["mode"] * (1 - 1e-3))), float(d.pdf(p["mode"] * (1 + 1e-3)))), "ge")]
    mmp = lambda r: (lambda mo: {"mode": mo, "mean": mo * (1 + logu(r, 0.1, 4.))})(logu(r, 1e-2, 1e2))
    T["cl.InverseGammaOperator_mm"] = dict(api="cl", sample=mmp, tab=True, rtol=1e-6, atol=lambda p: 0.0,
                                           make=cl_wrap(lambda d, p: spd.InverseGammaOperator(d, mode=p["mode"], mean=p["mean"])),
                                           ref=lambda p, x: ref_quantile(st.invgamma, x, a=2 / (p["mean"] / p["mode"] - 1) + 1,
                                                                         scale=p["mode"] * (2 / (p["mean"] / p["mode"] - 1) + 2)))
    T["cl.InverseGammaOperator_mm"]["attrs"] = ig_mm_attrs

    def g_attrs(p):
        op = spd.GammaOperator(ift.UnstructuredDomain(1), alpha=p["alpha"], theta=p["theta"])
        d = st.gamma(a=p["alpha"], scale=p["theta"])
        out = [("mean", float(op.mean), float(d.mean()), "eq"), ("var", float(op.var), float(d.var()), "eq")]
        if p["alpha"] > 1.05:
            out.append(("mode", float(d.pdf(op.mode)), max(float(d.pdf(op.mode * (1 - 1e-3))), float(d.pdf(op.mode * (1 + 1e-3)))), "ge"))
        return out

    def g_mv_attrs(p):
        op = spd.GammaOperator(ift.UnstructuredDomain(1), mean=p["mean"], var=p["var"])
        d = st.gamma(a=op.alpha, scale=op.theta)
        return [("mean", float(d.mean()), p["mean"], "eq"), ("var", float(d.var()), p["var"], "eq"),
                ("mean_property", float(op.mean), p["mean"], "eq"), ("var_property", float(op.var), p["var"], "eq")]
    at = lambda r: {"alpha": logu(r, 0.5, 20.), "theta": logu(r, 1e-2, 1e2)}
    T["cl.GammaOperator"] = dict(api="cl", sample=at, tab=True, rtol=1e-6, atol=lambda p: 1e-9 * p["theta"],
                                 make=cl_wrap(lambda d, p: spd.GammaOperator(d, alpha=p["alpha"], theta=p["theta"])),
                                 ref=lambda p, x: ref_quantile(st.gamma, x, a=p["alpha"], scale=p["theta"]))
    # (mean, var) chosen so that alpha = mean^2/var stays in the range used for the (alpha, theta) form
    mv = lambda r: (lambda a, th: {"mean": a * th, "var": a * th * th})(logu(r, 0.5, 20.), logu(r, 1e-2, 1e2))
    T["cl.GammaOperator_mv"] = dict(api="cl", sample=mv, tab=True, rtol=1e-6, atol=lambda p: 1e-9 * p["var"] / p["mean"],
                                    make=cl_wrap(lambda d, p: spd.GammaOperator(d, mean=p["mean"], var=p["var"])),
                                    ref=lambda p, x: ref_quantile(st.gamma, x, a=p["mean"] ** 2 / p["var"], scale=p["var"] / p["mean"]))
    T["cl.GammaOperator"]["attrs"] = g_attrs
    T["cl.GammaOperator_mv"]["attrs"] = g_mv_attrs
    # remaining documented parametrisations: GammaOperator(alpha, beta = 1/theta); Field-valued q / theta
    ab_ = lambda r: {"alpha": logu(r, 0.5, 20.), "beta": logu(r, 1e-2, 1e2)}
    T["cl.GammaOperator_beta"] = dict(api="cl", sample=ab_, tab=True, rtol=1e-6, atol=lambda p: 1e-9 / p["beta"],
                                      make=cl_wrap(lambda d, p: spd.GammaOperator(d, alpha=p["alpha"], beta=p["beta"])),
                                      ref=lambda p, x: ref_quantile(st.gamma, x, a=p["alpha"], scale=1 / p["beta"]))
    T["cl.GammaOperator_thetafield"] = dict(api="cl", sample=at, tab=True, rtol=1e-6, atol=lambda p: 1e-9 * p["theta"],
                                            make=cl_wrap(lambda d, p: spd.GammaOperator(d, alpha=p["alpha"], theta=ift.full(d, p["theta"]))),
                                            ref=lambda p, x: ref_quantile(st.gamma, x, a=p["alpha"], scale=p["theta"]))
    T["cl.InverseGammaOperator_qfield"] = dict(api="cl", sample=aq, tab=True, rtol=1e-6, atol=lambda p: 0.0,
                                               make=cl_wrap(lambda d, p: spd.InverseGammaOperator(d, alpha=p["alpha"], q=ift.full(d, p["q"]), delta=5e-3)),
                                               ref=lambda p, x: ref_quantile(st.invgamma, x, a=p["alpha"], scale=p["q"]))
    be = lambda r: {"a": logu(r, 0.5, 10.), "b": logu(r, 0.5, 10.)}
    T["cl.BetaOperator"] = dict(api="cl", sample=be, tab=True, rtol=1e-7, atol=lambda p: 1e-9,
                                make=cl_wrap(lambda d, p: spd.BetaOperator(d, p["a"], p["b"])),
                                ref=lambda p, x: ref_quantile(st.beta, x, a=p["a"], b=p["b"]))
    T["cl.LogInverseGammaOperator"] = dict(api="cl", sample=aq, tab=True, rtol=0.0, atol=lambda p: 1e-6,
                                           make=cl_wrap(lambda d, p: spd.LogInverseGammaOperator(d, p["alpha"], p["q"])),
                                           ref=lambda p, x: np.log(ref_quantile(st.invgamma, x, a=p["alpha"], scale=p["q"])))
    return T


_NORMAL = [{"mean": 0.0, "std": 1e-8}, {"mean": -3.0, "std": 1e8}, {"mean": 1e6, "std": 1e-3}, {"mean": 2, "std": 3}]
_LOGN = [{"mean": 3.0, "std": 3e-9}, {"mean": 1.0, "std": 1e-7}, {"mean": 50.0, "std": 1e-5}, {"mean": 1e-3, "std": 1.0}, {"mean": 2, "std": 1}]
_UNI = [{"a_min": 2.0, "a_max": 3.0}, {"a_min": -0.5, "a_max": 0.5}, {"a_min": 0.0, "a_max": 1.0}, {"a_min": 0, "a_max": 1},
        {"a_min": 2, "a_max": 3}, {"a_min": 0, "a_max": 1.0}, {"a_min": 1e6, "a_max": 1e6 + 1.0}, {"a_min": -1e-9, "a_max": 1e-9}]
_LAP = [{"alpha": 1e-6}, {"alpha": 1e6}, {"alpha": 2}]
FIXED = {
    "re.normal_prior": _NORMAL, "re.NormalPrior": _NORMAL, "cl.NormalTransform": _NORMAL,
    "re.lognormal_prior": _LOGN, "re.LogNormalPrior": _LOGN, "cl.LognormalTransform": _LOGN,
    "re.uniform_prior": _UNI, "re.UniformPrior": _UNI,
    "cl.UniformOperator": [{"loc": 2.0, "scale": 1.0}, {"loc": 2, "scale": 1}, {"loc": -1e-9, "scale": 2e-9}, {"loc": 1e3, "scale": 1.0}],
    "re.laplace_prior": _LAP, "re.LaplacePrior": _LAP,
    "cl.LaplaceOperator": [{"loc": 0, "scale": 1}, {"loc": 1e3, "scale": 1e-6}, {"loc": -2.0, "scale": 1e6}],
    "re.invgamma_prior": [{"a": 0.5, "scale": 1e-4}, {"a": 20.0, "scale": 1e4}, {"a": 2, "scale": 1}],
    "re.InvGammaPrior": [{"a": 0.5, "scale": 1e-4, "loc": -3.0}, {"a": 20.0, "scale": 1e4, "loc": 10.0}],
    "cl.InverseGammaOperator": [{"alpha": 0.5, "q": 1e-4}, {"alpha": 20.0, "q": 1e4}, {"alpha": 2, "q": 1}],
    "cl.GammaOperator": [{"alpha": 0.5, "theta": 1e-4}, {"alpha": 20.0, "theta": 1e4}],
}

GRID_N = 241        # x = -6 ... 6, step 0.05


def grid():
    """-6 ... 6 in steps of 0.05 with a fixed jitter of up to +-0.02 so that the points do not sit
    on the nodes of the interpolation tables (step 1e-2, where interpolation is exact); the end
    points and x = 0 are kept exact."""
    x = np.linspace(-XMAX, XMAX, GRID_N)
    j = np.random.Generator(np.random.PCG64(20260922)).uniform(-0.02, 0.02, size=GRID_N)
    j[0] = j[-1] = j[GRID_N // 2] = 0.0
    return x + j


def eval_transform(name, params, T=None):
    """Returns the list of failures [(check, detail dict)] of one transform instance."""
    T = T or transforms()
    t = T[name]
    x = grid()
    fwd, inv = t["make"](params, x.size)
    y = np.asarray(fwd(x), dtype=float)
    ref = t["ref"](params, x)
    fails = []
    tol = t["atol"](params) + t["rtol"] * np.maximum(np.abs(y), np.abs(ref))
    bad = ~(np.abs(y - ref) <= tol) | ~np.isfinite(y)
    if bad.any():
        i = int(np.argmax(np.where(np.isfinite(y), np.abs(y - ref) / np.maximum(tol, 1e-300), np.inf)))
        fails.append(("quantile", {"x": float(x[i]), "got": float(y[i]), "expected": float(ref[i]), "tol": float(tol[i])}))
    # the spread of the distribution (narrow priors must not collapse): where the reference resolves it
    sp_ref, sp = float(ref[-1] - ref[0]), float(y[-1] - y[0])
    if sp_ref > 1e-9 * float(np.max(np.abs(ref))) and not abs(sp - sp_ref) <= max(10 * t["rtol"], 1e-6) * sp_ref + 2 * t["atol"](params):
        fails.append(("spread", {"T(6)-T(-6)": sp, "expected": sp_ref}))
    d = np.diff(y)
    # strictly increasing wherever the reference quantiles themselves are resolved in float64
    # (bounded targets saturate at their edges), never decreasing anywhere
    need = np.diff(ref) > 1e-13 * np.maximum(np.abs(ref[1:]), np.abs(ref[:-1]))
    if np.any(d < 0) or np.any(need & ~(d > 0)):
        i = int(np.argmin(np.where(need, d, np.maximum(d, 0) + 1e300 * (d >= 0))))
        fails.append(("monotone", {"x0": float(x[i]), "x1": float(x[i + 1]), "y0": float(y[i]), "y1": float(y[i + 1])}))
    if inv is not None:
        m = np.abs(x) <= 5.0
        xb = np.asarray(inv(y), dtype=float)
        err = np.abs(xb - x)[m]
        if not np.all(err <= 1e-6):
            i = int(np.nanargmax(np.where(np.isfinite(err), err, np.inf)))
            fails.append(("inverse", {"x": float(x[m][i]), "roundtrip": float(xb[m][i])}))
    for nm, got, exp, kind in (t["attrs"](params) if "attrs" in t else []):
        ok = (got >= exp * (1 - 1e-12)) if kind == "ge" else close(got, exp, 1e-9)
        if not ok:
            fails.append(("attribute:" + nm, {"got": got, "expected": exp, "relation": kind}))
    return fails, float(np.max(np.abs(y - ref) / np.maximum(tol, 1e-300)))


class C30(C.Check):
    prop = "C30"
    coq_dir = "C30"
    trusted_base = [
        "Coq 8.16.1 kernel; axioms of the standard library's classical reals (see theorem_axioms)",
        "tr/realexpr.py + tr/c30_spec.py: Python ast -> real-expression IR -> Gallina text (whitelist of NumPy/JAX ufunc names, fail closed); "
        "both the Coq text and the Python rendering used by the correspondence are emitted from the same IR, so the two emitters "
        "(to_coq / to_py, ~25 lines each) are trusted to agree; transcendental functions cannot be evaluated by vm_compute over R, "
        "hence the numeric comparison with the source runs in Python, not in coqc",
        "Phi, phi, PhiInv are oracles: the theorems hold for every triple satisfying Model.std_normal (strictly increasing, range (0,1), "
        "Phi(-x) = 1 - Phi(x), mutually inverse, Phi' = phi); norm.logcdf is read as ln o Phi",
        "scipy.stats.laplace.ppf/cdf are modelled by hand in coq/C30/Model.v (SciPy is not NIFTy code) and compared with SciPy numerically on every run",
        "tabulated transforms (inverse gamma, gamma, beta, log inverse gamma): accuracy between table nodes is measured against SciPy quantiles "
        "on |x| <= 6, not proved (C30_interp_partial covers one interpolation segment); SciPy's ppf/isf are the reference oracles",
    ]
    assumptions = [
        "Model.std_normal Phi phi PhiInv (consistent: C30_std_normal_satisfiable exhibits the logistic CDF)",
        "float64 rounding is outside the theorems (real arithmetic); covered by tolerances in the correspondence and oracle only",
        "probabilities within [1e-9, 1-1e-9] (|x| <= 6): beyond, norm._cdf(x) saturates and the table-based classic operators lose accuracy by construction",
    ]

    def __init__(self):
        self.defs = None

    def translate(self, ctx):
        from tr import c30_spec
        self.defs = None
        defs, text = c30_spec.generate(ctx.repo)
        self.defs = defs
        C.write_if_changed(GEN, text)

    # ---------------------------------------------------------------------------------------------
    def correspondence(self, ctx, res):
        from tr import realexpr as T
        if self.defs is None:
            res.coverage.update({"evaluations": 0, "distinct_nontrivial": 0, "rule": "translator failed; nothing to compare"})
            return []
        import scipy.stats as st
        rend, code = T.compile_py(self.defs, free_impl())
        table = source_table()
        rng = ctx.rng(30)
        n_per = 12 if ctx.quick else 120
        evals, distinct, samples, bad = 0, set(), [], []
        missing = [d.name for d in self.defs if d.name not in table]
        if missing:
            raise C.MachineryError("no source evaluator for generated definitions %s" % missing)
        narrow = [(3.0, 3e-9), (1.0, 1e-7), (50.0, 1e-5), (1e-3, 1e3)]     # (mean, std): narrow and wide log-normals
        for d in self.defs:
            sampler, src = table[d.name]
            for k in range(n_per + (len(narrow) if "lognormal_log" in d.name else 0)):
                args = tuple(sampler(rng)) if k < n_per else narrow[k - n_per]
                try:
                    got = src(*args)
                    err = None
                except Exception as e:        # the implementation raised on an admissible input
                    got, err = float("nan"), repr(e)[:200]
                mod = rend[d.name](*args)
                evals += 1
                scale = max(abs(mod), abs(got), 1e-300)
                ok = close(mod, got, RTOL, atol=1e-12 * max(1.0, max(abs(a) for a in args)))
                if mod != 0.0:
                    distinct.add((d.name, round(math.log10(abs(mod)) * 4) if math.isfinite(mod) and mod != 0 else 0))
                if k == 0 and len(samples) < 6:
                    samples.append({"def": d.name, "args": args, "model": mod, "source": got})
                if not ok:
                    bad.append({"def": d.name, "origin": d.origin, "args": args, "model": mod, "source": got, "error": err})
        # the public model classes (prior.py) against the same generated definitions
        for name, (sampler, src) in sorted(source_table_classes().items()):
            for k in range(4 if ctx.quick else 40):
                args = tuple(sampler(rng))
                try:
                    got = src(*args)
                except Exception as e:
                    got = float("nan")
                mod = rend[name](*args)
                evals += 1
                # UniformPrior recomputes scale = (a + sc) - a: one rounding of the scale
                if not close(mod, got, 1e-8 if name == "re_uniform" else RTOL, atol=1e-9 * max(1.0, max(abs(a) for a in args))):
                    bad.append({"def": name + " (via model class)", "origin": "nifty/re/prior.py", "args": args, "model": mod, "source": got, "error": None})
        # the hand-written SciPy Laplace model against SciPy
        for k in range(40 if ctx.quick else 400):
            p = float(rng.uniform(1e-9, 1 - 1e-9))
            loc, sc = float(rng.normal() * 3), logu(rng, 1e-2, 1e2)
            evals += 2
            a, b = m_laplace_ppf(p, loc, sc), float(st.laplace.ppf(p, loc, sc))
            yv = loc + sc * float(rng.normal() * 4)
            c, e = m_laplace_cdf(yv, loc, sc), float(st.laplace.cdf(yv, loc, sc))
            if not close(a, b, 1e-10, atol=1e-12 * (abs(loc) + sc)) or not close(c, e, 1e-10, atol=1e-300):
                bad.append({"def": "Model.laplace_ppf/laplace_cdf vs scipy.stats.laplace", "args": (p, yv, loc, sc),
                            "model": (a, c), "source": (b, e)})
        for b in bad[:4]:
            res.add_broken("correspondence", "generated definition %s vs its source" % b["def"], b)
        res.coverage.update({
            "evaluations": evals, "distinct_nontrivial": len(distinct),
            "rule": "every generated definition of Gen_Prior.v (independent Python rendering of the same IR) vs the source function it was "
                    "translated from, %d generated parameter/point tuples each, rel. tol %g; plus Model.laplace_ppf/cdf vs scipy.stats.laplace; "
                    "distinct = distinct (definition, quarter-decade of the value) pairs with non-zero value" % (n_per, RTOL),
            "samples": samples, "disagreements": len(bad),
            "input_distribution": {"definitions": len(self.defs), "points_per_definition": n_per,
                                   "x": "uniform in [-6, 6], 10% exactly 0", "scales": "log-uniform in [1e-2, 1e2]"},
            "generated_definitions": [d.name for d in self.defs],
        })
        return [b["def"] for b in bad]

    # ---------------------------------------------------------------------------------------------
    def oracle(self, ctx, res, hints, budget):
        T = transforms()
        rng = ctx.rng(31)
        n_inst = (2 if ctx.quick else 12) * budget
        n, worst = 0, {}
        cases = []
        for c in ctx.corpus():
            cases.append((c["transform"], c["params"]))
        for name in sorted(T):
            for fp in FIXED.get(name, []):            # extreme but legal parameters, float-vs-int bounds: every run
                cases.append((name, dict(fp)))
            for k in range(n_inst):
                cases.append((name, T[name]["sample"](rng)))
        for name, params in cases:
            if name not in T:
                continue
            try:
                fails, ratio = eval_transform(name, params, T)
            except Exception as e:
                fails, ratio = [("raises", {"error": repr(e)[:300]})], float("inf")
            n += 1
            worst[name] = max(worst.get(name, 0.0), ratio)
            for chk, det in fails:
                if sum(1 for f in res.failing if f["signature"]["transform"] == name) >= 2:
                    break
                res.add_failing({"transform": name, "api": T[name]["api"], "check": chk},
                                "%s: %s check fails (%s) for parameters %s" % (name, chk, det, params),
                                {"transform": name, "params": params, "check": chk, "detail": det})
        res.coverage["impl_property_evaluations"] = n * GRID_N
        res.coverage["oracle_instances"] = n
        res.coverage["oracle_worst_error_over_tolerance"] = {k: round(v, 4) for k, v in sorted(worst.items())}

    def replay(self, ctx, rp):
        i = rp["input"]
        try:
            fails, _ = eval_transform(i["transform"], i["params"])
        except Exception:
            return True
        return any(chk == i["check"] for chk, _ in fails) or (i["check"] == "raises" and bool(fails))


CHECK = C30()
