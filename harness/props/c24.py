"""C24 -- The JAX VI driver resumes after a crash with identical results.

Tie: hand model coq/C24/Model.v of the persistence protocol of nifty.re.optimize_kl.optimize_kl +
correspondence.  A real small run is traced (every open/write/close/replace/... under the output
directory, harness/c24_driver.py) and the operation sequence is compared with the model's inside
coqc; then EVERY crash point of that run is executed for real (the process is killed with os._exit
before operation k; variants: buffers lost / buffers flushed / torn write), the directory that is
left is classified, the run is restarted with resume=True, and directory classification, operation
sequence and outcome of the restart are compared with the model (vm_compute).
Direct oracle (independent of Coq): the restarted run must not raise and must return
(samples, state) bit-identical to the uninterrupted run, for every crash point."""
import json
import os
import re
import shutil
import subprocess
from concurrent.futures import ThreadPoolExecutor

from .. import common as C

DRIVER = os.path.join(C.HOME, "harness", "c24_driver.py")
FN = "nifty.re.optimize_kl.optimize_kl"
NAMES = {"last.pkl": "Last", "last.pkl.tmp": "Tmp", "minisanity.txt": "Log", "@ext": "Ext"}


def eff(cfg, r):
    """The `resume` argument of a run: r (False = first run, True = restart) unless the
    configuration passes a string ("ext": an existing checkpoint outside the output directory,
    "missing": a path that does not exist) -- then every run, first or restart, passes that string."""
    return cfg.get("resume0") or r


def rm(cfg, r):
    m = eff(cfg, r)
    if m == "ext":
        return "(RPath (Some %s))" % C.cnat(cfg["ext_from"])
    if m == "missing":
        return "(RPath None)"
    return "RYes" if m else "RNo"


def public(cfg):
    return {k: v for k, v in cfg.items() if not k.startswith("_")}


def ensure_ckpt(ctx, cfg, wd):
    """For a configuration with resume0 == "ext": produce the checkpoint (last.pkl of a run of
    ext_from iterations in another directory) and record its path."""
    if cfg.get("resume0") != "ext":
        return
    pre = {k: v for k, v in cfg.items() if k not in ("resume0", "ext_from", "_ext_path")}
    pre["n_iter"] = cfg["ext_from"]
    shutil.rmtree(wd, ignore_errors=True)
    os.makedirs(wd)
    rep = drive(ctx, wd, "pre", pre, False)
    if rep["outcome"] != "ok":
        raise C.MachineryError("C24: the run producing the external checkpoint failed: %r" % (rep.get("error"),))
    path = os.path.join(wd, "checkpoint.pkl")
    shutil.copyfile(os.path.join(wd, "odir", "last.pkl"), path)
    cfg["_ext_path"] = path
KINDS = {"open-w": "TOpenW", "open-a": "TOpenA", "open-r": "TOpenR", "write": "TWrite", "close": "TClose"}
HEADER = "From Coq Require Import List Arith Bool. Import ListNotations.\nRequire Import NV.C24.Model.\n"
WORKERS = 8


def work_root(ctx):
    """Per-process scratch directory (concurrent checks of the same property must not collide)."""
    return os.path.join(ctx.run_dir(), "w%d" % os.getpid())


def clean_old_work(ctx):
    """Remove scratch directories of processes that no longer exist."""
    rd = ctx.run_dir()
    for f in os.listdir(rd):
        m = re.fullmatch(r"w(\d+)", f)
        if (m and not os.path.exists("/proc/%s" % m.group(1))) or f == "work":
            shutil.rmtree(os.path.join(rd, f), ignore_errors=True)


# ---- running the driver ---------------------------------------------------------------------
def drv_env(ctx):
    env = dict(os.environ)
    env["PYTHONPATH"] = "%s:%s:%s" % (os.path.join(C.HOME, "shim"), ctx.repo, C.HOME)
    env["JAX_PLATFORMS"] = "cpu"
    env["JAX_ENABLE_X64"] = "1"
    env["OMP_NUM_THREADS"] = "1"
    env["XLA_FLAGS"] = "--xla_force_host_platform_device_count=1 --xla_cpu_multi_thread_eigen=false intra_op_parallelism_threads=1"
    # persistent XLA compilation cache shared by the (many, identical) driver processes of one check
    cc = os.path.join(C.run_dir("C24"), "jaxcache")
    os.makedirs(cc, exist_ok=True)
    env["JAX_COMPILATION_CACHE_DIR"] = cc
    env["JAX_PERSISTENT_CACHE_MIN_COMPILE_TIME_SECS"] = "0"
    env["JAX_PERSISTENT_CACHE_MIN_ENTRY_SIZE_BYTES"] = "-1"
    # byte code of the tree under test is cached outside that tree (./check forbids writing into it)
    env.pop("PYTHONDONTWRITEBYTECODE", None)
    env["PYTHONPYCACHEPREFIX"] = os.path.join(C.run_dir("C24"), "pycache")
    return env


def drive(ctx, wd, tag, case, resume, crash_at=-1, mode="kill", frac=0.5):
    """One driver process.  Returns its JSON report (+ 'rc')."""
    spec = {"odir": os.path.join(wd, "odir"), "out": os.path.join(wd, "out_%s.json" % tag), "resume": resume,
            "crash_at": crash_at, "mode": mode, "frac": frac, "case": case, "repo": ctx.repo}
    sp = os.path.join(wd, "spec_%s.json" % tag)
    json.dump(spec, open(sp, "w"))
    if os.path.exists(spec["out"]):
        os.remove(spec["out"])
    try:
        p = subprocess.run(["/venv/bin/python", DRIVER, sp], env=drv_env(ctx), stdout=subprocess.PIPE,
                           stderr=subprocess.STDOUT, timeout=600, text=True)
        rc, out = p.returncode, p.stdout
    except subprocess.TimeoutExpired:
        rc, out = 124, "timeout"
    if not os.path.exists(spec["out"]) or rc not in (0, 77):
        raise C.MachineryError("C24 driver failed (rc=%s, spec=%s):\n%s" % (rc, sp, out[-2000:]))
    rep = json.load(open(spec["out"]))
    rep["rc"] = rc
    if not os.path.realpath(rep.get("nifty_file", "")).startswith(os.path.realpath(ctx.repo) + os.sep):
        raise C.MachineryError("C24 driver imported nifty from %s, not from %s" % (rep.get("nifty_file"), ctx.repo))
    return rep


def run_batch(ctx, path, specs):
    """Several complete (never killed) runs inside ONE driver process (JAX imported once)."""
    for sp in specs:
        os.makedirs(os.path.dirname(sp["out"]), exist_ok=True)
        if os.path.exists(sp["out"]):
            os.remove(sp["out"])
    os.makedirs(os.path.dirname(path), exist_ok=True)
    json.dump(specs, open(path, "w"))
    try:
        p = subprocess.run(["/venv/bin/python", DRIVER, "--batch", path], env=drv_env(ctx), stdout=subprocess.PIPE,
                           stderr=subprocess.STDOUT, timeout=1500, text=True)
        rc, out = p.returncode, p.stdout
    except subprocess.TimeoutExpired:
        rc, out = 124, "timeout"
    if rc != 0 or not os.path.exists(path + ".rcs") or any(json.load(open(path + ".rcs"))):
        raise C.MachineryError("C24 batch driver failed (rc=%s, %s):\n%s" % (rc, path, out[-2000:]))
    reps = []
    for sp in specs:
        rep = json.load(open(sp["out"]))
        rep["rc"] = 0
        if not os.path.realpath(rep.get("nifty_file", "")).startswith(os.path.realpath(ctx.repo) + os.sep):
            raise C.MachineryError("C24 driver imported nifty from %s, not from %s" % (rep.get("nifty_file"), ctx.repo))
        reps.append(rep)
    return reps


def plain_spec(wd, tag, case, resume, odir=None, snap_rule=None):
    sp = {"odir": odir or os.path.join(wd, "odir"), "out": os.path.join(wd, "out_%s.json" % tag), "resume": resume,
          "crash_at": -1, "mode": "kill", "frac": 0.0, "case": case}
    if snap_rule:
        sp["snap_rule"] = snap_rule
    return sp


def run_chain(ctx, wd, case, cps, r0=False):
    """Fresh run (resume=r0) killed at cps[0], restarted with resume=True and killed at cps[1], ...,
    then restarted with resume=True and left alone.  Returns the list of reports (last = final)."""
    shutil.rmtree(wd, ignore_errors=True)
    os.makedirs(wd)
    reps = []
    for i, (k, mode, frac) in enumerate(cps):
        reps.append(drive(ctx, wd, "c%d" % i, case, eff(case, r0 if i == 0 else True), int(k), mode, float(frac)))
    reps.append(drive(ctx, wd, "final", case, eff(case, True if cps else r0)))
    return reps


# ---- cases ----------------------------------------------------------------------------------
def gen_configs(ctx):
    rng = ctx.rng(24)

    def base(n_iter, **kw):
        c = {"data": [round(float(x), 3) for x in rng.normal(size=3)], "amp": round(float(rng.uniform(0.5, 1.5)), 3),
             "pos0": round(float(rng.uniform(-0.3, 0.3)), 3), "noise_std_inv": round(float(rng.uniform(1.0, 3.0)), 3),
             "sample_modes": "nonlinear_resample", "n_samples": 2, "key": int(rng.integers(0, 2 ** 31 - 1)),
             "n_iter": n_iter, "model": "exp"}
        c.update(kw)
        return c
    if ctx.quick:
        # start position given as jft.Samples (without samples/keys) in the main configuration, as a
        # plain position in the checkpoint one
        return [(base(2, start_form="samples"), "medium", 2, False),
                # resume="<existing checkpoint outside odir>" (state after 1 iteration), every run passes it again
                (base(2, resume0="ext", ext_from=1), "light", 1, False)]
    # (configuration, enumeration level, number of random crash chains, also first runs with resume=True)
    return [
        (base(3), "full", 6, True),
        (base(4, sample_modes=["linear_resample", "nonlinear_update", "nonlinear_resample", "linear_sample"],
              n_samples=[1, 2, 2, 2], model="cubic"), "medium", 4, False),
        (base(3, tree=True, data=[round(float(x), 3) for x in rng.normal(size=4)], point_estimates=["b"],
              sample_modes=["linear_resample", "linear_resample", "nonlinear_resample"]), "light", 2, False),
        (base(2, n_samples=0, jit=False), "light", 0, True),          # MAP run, no jit
        (base(3, resume0="ext", ext_from=1), "medium", 3, False),     # resume="<existing checkpoint>"
        (base(2, resume0="missing"), "light", 2, False),              # resume="<path that does not exist>"
        (base(2, start_form="samples_keys", sample_modes=["linear_sample", "nonlinear_update"]), "light", 1, False),
        (base(3, start_form="samples", resume0="ext", ext_from=1), "kill", 1, False),
    ]


def open_intervals(ops):
    """For every op index k: names of the traced files that are open for writing right before op k."""
    cur, out = [], []
    for kind, name, *_ in ops:
        out.append(list(cur))
        if kind in ("open-w", "open-a", "open-rw"):
            cur.append(name)
        elif kind == "close" and name in cur:
            cur.remove(name)
    out.append(list(cur))
    return out


def crash_points(ops, level):
    """All crash points of a traced run at the given level (rule shared with the driver, which takes
    the snapshots: harness/c24_driver.point_variants)."""
    from ..c24_driver import point_variants
    opened = open_intervals(ops)
    pts = []
    for k, o in enumerate(ops):
        pts += [[(k, m, fr)] for m, fr in point_variants(o[0], o[1], opened[k], level)]
    pts.append([(len(ops), "kill", 0.0)])
    return pts


def sanitize(cps, ops):
    """Stored crash chain -> valid chain for the traced run at hand (a torn crash needs a write)."""
    out = []
    for i, (k, mode, frac) in enumerate(cps):
        if mode == "torn" and not (i == 0 and k < len(ops) and ops[k][0] == "write"):
            mode = "kill"
        out.append((int(k), mode, float(frac)))
    return out


def chain_points(ctx, ops, rng, count):
    """Double / triple crashes: first crash anywhere, later crashes early in the resumed run."""
    n = len(ops)
    out = []
    for _ in range(count):
        k1 = int(rng.integers(1, n))
        m1 = "torn" if ops[k1][0] == "write" else ["kill", "flush"][int(rng.integers(0, 2))]
        ch = [(k1, m1, 0.5)]
        for _ in range(int(rng.integers(1, 3))):
            ch.append((int(rng.integers(0, 12)), ["kill", "flush"][int(rng.integers(0, 2))], 0.0))
        out.append(ch)
    return out


# ---- Coq terms ------------------------------------------------------------------------------
def tok(op):
    kind, name = op[0], op[1]
    if kind == "makedirs":
        return "TMakedirs" if name == "." else None
    if kind == "replace":
        a, _, b = name.partition("->")
        if a in NAMES and b in NAMES:
            return "(TReplace %s %s)" % (NAMES[a], NAMES[b])
        return None
    if kind in KINDS and name in NAMES:
        return "(%s %s)" % (KINDS[kind], NAMES[name])
    return None


def toks(ops):
    ts = [tok(o) for o in ops]
    return None if any(t is None for t in ts) else C.clist(ts)


def extras_of(ops, n_iter):
    """Observed number of write calls per dump of a state file, minus one (model parameter)."""
    out, cur = [], None
    for kind, name, *_ in ops:
        if kind == "open-w" and name != "minisanity.txt":
            cur = 0
        elif kind == "write" and cur is not None and name != "minisanity.txt":
            cur += 1
        elif kind == "close" and cur is not None and name != "minisanity.txt":
            out.append(max(cur - 1, 0))
            cur = None
    return (out + [0] * n_iter)[:max(n_iter, len(out))]


def extras_for(cfg, ops, n):
    """extras indexed by the iteration whose state is dumped (a run resumed from a checkpoint with
    nit = ext_from dumps iterations ext_from+1, ... only)."""
    j = cfg.get("ext_from", 0) if cfg.get("resume0") == "ext" else 0
    return ([0] * j + extras_of(ops, n - j))[:max(n, 1)]


def cps_coq(cps):
    return C.clist(["(%s, %s)" % (C.cnat(k), C.cbool(mode != "flush")) for k, mode, _ in cps])


def last_coq(pre):
    if pre["last"] == "absent":
        return "LAbsent"
    if pre["last"] == "torn":
        return "LTorn"
    return "(LValid %s)" % C.cnat(pre["last_state"]["nit"])


def chain_check(old, extras, n, r0, cps, reps, cfg=None):
    cfg = cfg or {}
    """Boolean Coq term: the model agrees with everything observed along one crash chain."""
    ex = C.clist([C.cnat(e) for e in extras])
    parts = []
    for i in range(len(cps) + 1):
        rep = reps[i]
        before = cps_coq(cps[:i])
        resume = r0 if i == 0 else True
        head = "%s %s %s %s %s" % (C.cbool(old), ex, C.cnat(n), rm(cfg, r0), before)
        if rep.get("snapshot"):
            continue                      # prefix of a complete traced run whose trace is checked on its own
        t = toks(rep["ops"])
        if t is None:
            return "false"
        if i > 0 or r0:
            pre = rep["pre"]
            parts.append("disk_ok %s %s %s %s" % (head, last_coq(pre), C.cbool("last.pkl.tmp" in pre["files"]),
                                                 C.cbool("minisanity.txt" in pre["files"])))
        if rep["outcome"] == "killed":
            parts.append("killed_trace_ok %s %s %s %s" % (head, rm(cfg, resume), C.cnat(cps[i][0]), t))
        else:
            parts.append("trace_ok %s %s %s" % (head, rm(cfg, resume), t))
            obs = C.copt(rep["final"]["nit"], C.cnat) if rep["outcome"] == "ok" else "None"
            parts.append("outcome_ok %s %s %s" % (head, rm(cfg, resume), obs))
    return "(" + " && ".join("(%s)" % p for p in parts) + ")"


# ---- the property, directly on the implementation --------------------------------------------
def direct_failure(ref, reps):
    """None if the chain ended like the uninterrupted run; else (failure-kind, text)."""
    fin = reps[-1]
    for r in reps:
        if r["outcome"] not in ("ok", "killed", "raised"):
            return ("driver", "driver outcome %s" % r["outcome"])
    killed = [r["killed_before"] for r in reps if r["outcome"] == "killed"]
    where = "; ".join(("%s %s" % (k[0], k[1])) if k[0] != "end" else "the return, after the last operation" for k in killed) or "after the last operation"
    if fin["outcome"] == "raised":
        return ("resume-raises", "resume=True raises %s (%s) after a kill before [%s]; last.pkl on disk: %s"
                % (fin["error"], fin.get("detail", "")[:80], where, fin["pre"]["last"]))
    if fin["outcome"] != "ok":
        return ("resume-incomplete", "the restarted run did not finish: %s" % fin["outcome"])
    if fin["final"]["hash"] != ref["final"]["hash"]:
        return ("resume-differs", "resume=True after a kill before [%s] returns (samples, state) that differ from the "
                "uninterrupted run: nit %s vs %s, pos %s vs %s, array leaves %s vs %s"
                % (where, fin["final"]["nit"], ref["final"]["nit"], fin["final"]["pos"][:3], ref["final"]["pos"][:3],
                   fin["final"]["n_leaves"], ref["final"]["n_leaves"]))
    for j, h in fin.get("iters", {}).items():
        if ref["iters"].get(j) != h:
            return ("resume-differs", "iteration %s of the restarted run differs from the uninterrupted run" % j)
    return None


def state_file_mismatch(ref, reps):
    """Model-level observation (not the property itself): a loadable last.pkl found after a kill holds
    exactly the state the uninterrupted run had after iteration state.nit (model: Valid (iter j))."""
    for r in reps:
        pre = r["pre"]
        if pre["last"] == "valid" and ref["iters"].get(str(pre["last_state"]["nit"])) != pre["last_state"]["hash"]:
            return "last.pkl found after the kill loads but is not the state of completed iteration %s" % pre["last_state"]["nit"]
    return None


def signature(kind, reps):
    killed = [r["killed_before"] for r in reps if r["outcome"] == "killed"]
    return {"fn": FN, "failure": kind, "file": killed[-1][1] if killed else None}


class C24(C.Check):
    prop = "C24"
    coq_dir = "C24"
    trusted_base = [
        "Coq 8.16.1 kernel (coqc, vm_compute for the correspondence evaluation); no axioms: all C24 theorems are closed under the global context",
        "hand-written model coq/C24/Model.v of the persistence protocol of re.optimize_kl (tied by trace correspondence on every run, not by translation)",
        "harness/c24_driver.py: the tracer sees every file-system operation of the driver (fail closed: a byte-exact shadow directory built from the traced operations must equal the real directory at the end of the run)",
        "disk abstraction: a state file is Valid s / Buffered s / Torn; every strict prefix of a pickle is unloadable; os.replace is atomic (POSIX rename)",
        "crash = process kill (os._exit in a subprocess); durability against power loss (fsync ordering) is outside the model",
    ]
    assumptions = [
        "opt_vi.update is a deterministic function of the pickled (samples, state) and of the unchanged call arguments (checked by the oracle: bit-identical per-iteration hashes)",
        "the restart uses the same arguments (key, n_total_iterations, n_samples, ...) and the same odir",
        "the output directory holds no last.pkl of another run when the first run starts",
        "no other process writes to the output directory",
    ]

    def __init__(self):
        self.obs = []          # (cfg, ref, cps, r0, reps)
        self.refs = []

    # -- helpers -----------------------------------------------------------------------------
    def wd(self, ctx, name):
        return os.path.join(work_root(ctx), name)

    def pseudo_killed(self, first, k):
        """Report of the (not separately executed) run that was killed before its operation k: the
        snapshot was taken by the complete traced run `first` at exactly that instant."""
        ops = first["ops"]
        return {"outcome": "killed", "killed_before": list(ops[k][:2]) if k < len(ops) else ["end", ""],
                "ops": ops[:k], "pre": first["pre"], "snapshot": True}

    # -- correspondence ----------------------------------------------------------------------
    def correspondence(self, ctx, res):
        self.obs, self.refs = [], []
        clean_old_work(ctx)
        shutil.rmtree(work_root(ctx), ignore_errors=True)
        cc = os.path.join(ctx.run_dir(), "jaxcache")
        if os.path.isdir(cc) and len(os.listdir(cc)) > 3000:
            shutil.rmtree(cc, ignore_errors=True)
        checks, meta = [], []
        rng = ctx.rng(2400)
        modes = {}
        nontrivial = set()
        # groups: (configuration, corpus crash chains or None = full enumeration, plan)
        groups = []
        for e in ctx.corpus():
            key = json.dumps(e["case"], sort_keys=True)
            for g in groups:
                if g[2] == key:
                    g[1].append((e["cps"], bool(e.get("r0", False))))
                    break
            else:
                groups.append((e["case"], [(e["cps"], bool(e.get("r0", False)))], key))
        ncorp = len(groups)
        groups += [(c, None, (lvl, nch, wr)) for c, lvl, nch, wr in gen_configs(ctx)]

        import time
        t0 = time.time()
        for gi, (cfg, corp, plan) in enumerate(groups):
            ensure_ckpt(ctx, cfg, self.wd(ctx, "ckpt%d" % gi))
        t1 = time.time()

        # phase 1: uninterrupted runs -- a plain one (own process) and, for generated configurations,
        # one that takes a snapshot of the directory at every crash point (and one started with resume=True)
        with ThreadPoolExecutor(WORKERS) as ex:
            fut = {}
            for gi, (cfg, corp, plan) in enumerate(groups):
                fut[(gi, "a")] = ex.submit(run_chain, ctx, self.wd(ctx, "ref%d_a" % gi), cfg, [], False)   # resume = eff(cfg, False)
                if corp is None:
                    fut[(gi, "s")] = ex.submit(run_batch, ctx, self.wd(ctx, "ref%d_s.json" % gi), [plain_spec(
                        self.wd(ctx, "ref%d_s" % gi), "ref", cfg, eff(cfg, False), snap_rule={"level": plan[0], "dir": self.wd(ctx, "snap%d" % gi)})])
                    if plan[2] and not cfg.get("resume0"):
                        fut[(gi, "r")] = ex.submit(run_batch, ctx, self.wd(ctx, "ref%d_r.json" % gi), [plain_spec(
                            self.wd(ctx, "ref%d_r" % gi), "ref", cfg, True, snap_rule={"level": "kill", "dir": self.wd(ctx, "snapr%d" % gi)})])
            first = {k: f.result()[0] for k, f in fut.items()}
        t2 = time.time()
        refs = []
        for gi, (cfg, corp, plan) in enumerate(groups):
            ra = first[(gi, "a")]
            if ra["outcome"] != "ok":
                raise C.MachineryError("C24: the uninterrupted reference run failed: %r" % ({k: ra.get(k) for k in ("outcome", "error", "detail")},))
            rb = first.get((gi, "s"))
            if rb is not None and (rb["outcome"] != "ok" or ra["final"]["hash"] != rb["final"]["hash"] or ra["ops"] != rb["ops"] or ra["iters"] != rb["iters"]):
                raise C.MachineryError("C24: two uninterrupted runs of the same configuration differ; results cannot be compared bit for bit")
            rr = first.get((gi, "r"))
            if rr is not None and (rr["outcome"] != "ok" or ra["final"]["hash"] != rr["final"]["hash"]):
                raise C.MachineryError("C24: the uninterrupted run started with resume=True differs from the one started with resume=False")
            if ra["shadow_mismatch"]:
                res.add_broken("correspondence", "untraced file-system activity in the output directory",
                               {"files": ra["shadow_mismatch"], "cfg": cfg})
            refs.append(ra)
            self.refs.append((cfg, ra))

        # phase 2: a restart on every snapshot (several per driver process), real kill chains (own processes)
        snaps, real = [], []          # (gi, cps, r0, spec) / (gi, cps, r0, workdir)
        for gi, (cfg, corp, plan) in enumerate(groups):
            ref = refs[gi]
            if corp is not None:
                for i, (cps, r0) in enumerate(corp):
                    real.append((gi, sanitize(cps, ref["ops"]), r0, self.wd(ctx, "real%d_%d" % (gi, i))))
                continue
            lvl, nch, with_r = plan
            pts = crash_points(ref["ops"], lvl)
            taken = first[(gi, "s")]["snaps_taken"]
            if sorted((t["k"], t["mode"], round(t["frac"], 4)) for t in taken) != sorted((p[0][0], p[0][1], round(p[0][2], 4)) for p in pts):
                raise C.MachineryError("C24: the snapshots taken do not match the crash points of the traced run")
            for t in taken:
                snaps.append((gi, [(t["k"], t["mode"], t["frac"])], False,
                              plain_spec(os.path.dirname(t["dest"]), "final", cfg, eff(cfg, True), odir=t["dest"])))
            if with_r and not cfg.get("resume0"):
                for t in first[(gi, "r")]["snaps_taken"][::3]:
                    snaps.append((gi, [(t["k"], t["mode"], t["frac"])], True,
                                  plain_spec(os.path.dirname(t["dest"]), "final", cfg, True, odir=t["dest"])))
            step = 7 if ctx.quick else 5
            chains = [p for p in pts[2::step]] + chain_points(ctx, ref["ops"], rng, nch)
            for i, cps in enumerate(chains):
                real.append((gi, cps, False, self.wd(ctx, "real%d_%d" % (gi, i))))
        nb = max(1, min(WORKERS - 2, (len(snaps) + 3) // 4))
        slices = [snaps[i::nb] for i in range(nb)] if snaps else []
        with ThreadPoolExecutor(WORKERS) as ex:
            fb = [ex.submit(run_batch, ctx, self.wd(ctx, "batch_%d.json" % i), [x[3] for x in sl]) for i, sl in enumerate(slices)]
            fr = [ex.submit(run_chain, ctx, wd, groups[gi][0], cps, r0) for gi, cps, r0, wd in real]
            breps = [f.result() for f in fb]
            rreps = [f.result() for f in fr]
        t3 = time.time()
        results, snapsha = [], {}
        for sl, reps in zip(slices, breps):
            for (gi, cps, r0, sp), rep in zip(sl, reps):
                src = first[(gi, "r")] if r0 else refs[gi]
                results.append((gi, [tuple(c) for c in cps], r0, [self.pseudo_killed(src, cps[0][0]), rep], "snapshot"))
                snapsha[(gi, r0, cps[0][0], cps[0][1], round(cps[0][2], 4))] = rep["pre"]["dir_sha"]
        n_real = 0
        for (gi, cps, r0, wd), reps in zip(real, rreps):
            cps = [tuple(c) for c in cps]
            n_real += 1
            if len(cps) == 1 and reps[0]["outcome"] == "killed":
                want = snapsha.get((gi, r0, cps[0][0], cps[0][1], round(cps[0][2], 4)))
                if want is not None and want != reps[-1]["pre"]["dir_sha"]:
                    raise C.MachineryError("C24: the directory left by a real kill before operation %d (%s) differs from the "
                                           "snapshot of the same crash point" % (cps[0][0], cps[0][1]))
            results.append((gi, cps, r0, reps, "real"))
        for gi, (cfg, corp, plan) in enumerate(groups):
            ref = refs[gi]
            n = cfg["n_iter"]
            extras = extras_for(cfg, ref["ops"], n)
            ex_ = C.clist([C.cnat(e) for e in extras])
            t = toks(ref["ops"])
            head = "false %s %s %s []" % (ex_, C.cnat(n), rm(cfg, False))
            checks.append("false" if t is None else "(trace_ok %s %s %s) && (outcome_ok %s %s (Some %s))"
                          % (head, rm(cfg, False), t, head, rm(cfg, False), C.cnat(ref["final"]["nit"])))
            meta.append({"what": "operation sequence of the uninterrupted run", "cfg": public(cfg), "ops": ref["ops"]})
        for gi, cps, r0, reps, how in results:
            cfg, ref = groups[gi][0], refs[gi]
            n = cfg["n_iter"]
            extras = extras_for(cfg, ref["ops"], n)
            self.obs.append((cfg, ref, cps, r0, reps))
            checks.append(chain_check(False, extras, n, r0, cps, reps, cfg=cfg))
            sm = state_file_mismatch(ref, reps)
            if sm and not any(b["name"] == "content of last.pkl vs model" for b in res.broken):
                res.add_broken("correspondence", "content of last.pkl vs model", {"what": sm, "cfg": cfg, "cps": cps})
            meta.append({"what": "crash chain (%s)" % how + (", first run with resume=True" if r0 else ""), "cfg": public(cfg),
                         "cps": cps, "pre": reps[-1]["pre"], "final_ops": reps[-1]["ops"], "outcome": reps[-1]["outcome"]})
            for k, m, _ in cps:
                modes[m] = modes.get(m, 0) + 1
            if any(0 < k < len(ref["ops"]) for k, _, _ in cps):
                nontrivial.add((gi, r0, tuple(cps)))
        bad = C.eval_cases(self.prop, "corr", HEADER, checks)
        res.notes.append("wall: checkpoint run %.1fs, uninterrupted runs %.1fs, %d snapshot restarts + %d real chains %.1fs, model evaluation in coqc %.1fs"
                         % (t1 - t0, t2 - t1, len(snaps), len(real), t3 - t2, time.time() - t3))
        for i in bad[:4]:
            d = dict(meta[i])
            # diagnosis: does the observation match the OLD (unfixed) protocol instead?
            res.add_broken("correspondence", "re.optimize_kl file protocol vs coq/C24/Model.v", d)
        res.coverage.update({
            "evaluations": len(checks), "distinct_nontrivial": len(nontrivial),
            "rule": "per configuration: the traced operation sequence of the uninterrupted run, then every crash point "
                    "(kill before each operation and after the last; buffers flushed where a file is open; torn writes; the "
                    "directory is the snapshot taken by the traced run at that instant; a spread of points, the corpus and all "
                    "double/triple crash chains by really killing the process, cross-checked against the snapshot), "
                    "each restarted for real and compared with the model on "
                    "directory classification, operation sequence of the restart and outcome; non-trivial = killed strictly inside the run; distinct by (configuration, crash chain)",
            "samples": [{"cps": m.get("cps"), "pre": m.get("pre"), "outcome": m.get("outcome")} for m in meta[8:11]],
            "input_distribution": {"configurations": len(groups), "corpus_cases": ncorp, "crash_chains": len(self.obs),
                                   "really_killed_chains": n_real, "by_mode": modes,
                                   "ops_per_run": [len(r["ops"]) for _, r in self.refs]},
            "disagreements": len(bad), "exhaustive": False, "exhaustive_within": "all crash points of each traced run",
        })
        return bad

    # -- oracle ------------------------------------------------------------------------------
    def oracle(self, ctx, res, hints, budget):
        n = 0
        seen = set()
        for (cfg, ref, cps, r0, reps) in self.obs:
            n += 1
            f = direct_failure(ref, reps)
            if f:
                sig = signature(f[0], reps)
                key = json.dumps(sig, sort_keys=True)
                if key in seen:
                    continue
                seen.add(key)
                res.add_failing(sig, f[1], {"case": public(cfg), "cps": [list(c) for c in cps], "r0": r0})
        if budget > 1 and not res.failing and self.refs:
            # widen: all torn fractions and log-file points of the first configuration
            cfg, ref = self.refs[-1]
            done = {tuple(c) for (_, _, c, _, _) in self.obs}
            pts = [p for p in crash_points(ref["ops"], "full") if tuple(p) not in done]
            pts += chain_points(ctx, ref["ops"], ctx.rng(2401), 12)
            with ThreadPoolExecutor(WORKERS) as ex:
                allreps = list(ex.map(lambda a: run_chain(ctx, self.wd(ctx, "w%d" % a[0]), cfg, a[1], False), list(enumerate(pts))))
            for cps, reps in zip(pts, allreps):
                n += 1
                f = direct_failure(ref, reps)
                if f:
                    res.add_failing(signature(f[0], reps), f[1], {"case": public(cfg), "cps": [list(c) for c in cps], "r0": False})
                    break
        res.coverage["impl_property_evaluations"] = n
        shutil.rmtree(work_root(ctx), ignore_errors=True)

    def replay(self, ctx, rp):
        i = rp["input"]
        cfg = dict(i["case"])
        ensure_ckpt(ctx, cfg, self.wd(ctx, "replay_ckpt"))
        ref = run_chain(ctx, self.wd(ctx, "replay_ref"), cfg, [], False)[0]
        reps = run_chain(ctx, self.wd(ctx, "replay"), cfg, sanitize(i["cps"], ref["ops"]), bool(i.get("r0", False)))
        f = direct_failure(ref, reps)
        if f:
            print("  " + f[1])
        shutil.rmtree(work_root(ctx), ignore_errors=True)
        return f is not None


CHECK = C24()
