"""C04 -- Fixing part of the input preserves value, Jacobian and metric.

Tie: hand model coq/C04/Model.v of Operator.simplify_for_constant_input / the per-class
_simplify_for_constant_input_nontrivial over the C03 expression language + correspondence: generated
multi-key operator and energy trees (Gaussian likelihood chains, scaled, summed, the variable-covariance
Gaussian with both use_full_fisher settings, StandardHamiltonian), EVERY non-empty proper subset of the
operator's keys as constants; compared exactly inside coqc (Qc): the specialised operator's value,
Linearization value, dense Jacobian (TIMES and ADJOINT_TIMES, over all keys so that its domain is checked),
dense metric, and the original operator on Linearization.make_partial_var.
Direct oracle (implementation only): op(loc) vs op0(varloc), Jacobians and metric matrices, constant block
of make_partial_var, EnergyAdapter(constants=...)."""
import itertools
import json

import logging

import numpy as np

from .. import common as C
from . import c03 as B


def quiet():
    """NIFTy logs a warning for every InsertionOperator fall-back."""
    from nifty.cl.logger import logger
    logger.setLevel(logging.ERROR)

PROP = "C04"
eval_cases_private = B.eval_cases_private


# ======================================================================================================
# implementation side
# ======================================================================================================

class Impl(B.Impl):
    def op(self, t):
        ift = self.ift
        if t[0] == "vcg":
            return ift.VariableCovarianceGaussianEnergy(self.dom, B.key(t[2]), B.key(t[3]), np.float64, use_full_fisher=bool(t[1]))
        if t[0] == "ham":
            return ift.StandardHamiltonian(self.op(t[1]))
        if t[0] == "eaddE":
            # sum of NON-likelihood energies (Hamiltonians): Operator.__add__ -> _OpSum, specialised recursively
            return self.op(t[1]) + self.op(t[2])
        return super().op(t)

    def dense(self, lin, dkeys, m):
        """dense TIMES / ADJOINT / metric of a Linearization whose domain has the keys dkeys; zero fill for
        the other keys (their derivative IS zero: the operator does not depend on them)."""
        ift = self.ift
        jdom = lin.jac.domain
        zero = {kk: np.zeros(self.n, dtype=self.dtype) for kk in dkeys}

        def mf(d, dom):
            return ift.MultiField.from_dict({kk: ift.Field.from_raw(self.dom, d[kk]) for kk in dkeys}, domain=dom)

        jt = []
        for k in range(self.K):
            col = []
            for j in range(self.n):
                if B.key(k) in dkeys:
                    d = {kk: v.copy() for kk, v in zero.items()}
                    d[B.key(k)][j] = 1.
                    col.append(np.atleast_1d(lin.jac(mf(d, jdom)).asnumpy()).tolist())
                else:
                    col.append([0.] * m)
            jt.append(col)
        ja = []
        for i in range(m):
            e = np.zeros(m, dtype=self.dtype)
            e[i] = 1.
            y = ift.Field.from_raw(lin.jac.target, e.reshape(lin.jac.target.shape))
            r = lin.jac.adjoint_times(y).asnumpy()
            ja.append([np.asarray(r[B.key(k)]).tolist() if B.key(k) in dkeys else [0.] * self.n for k in range(self.K)])
        met = None
        if lin.metric is not None:
            met = []
            for k in range(self.K):
                rows = []
                for j in range(self.n):
                    if B.key(k) in dkeys:
                        d = {kk: v.copy() for kk, v in zero.items()}
                        d[B.key(k)][j] = 1.
                        r = lin.metric(mf(d, lin.metric.domain)).asnumpy()
                        rows.append([np.asarray(r[B.key(kk)]).tolist() if B.key(kk) in dkeys else [0.] * self.n
                                     for kk in range(self.K)])
                    else:
                        rows.append([[0.] * self.n for _ in range(self.K)])
                met.append(rows)
        return jt, ja, met

    def draw_dtypes(self, lin, vkeys):
        """dtype per variable key of one sample drawn from the Linearization's metric (None: no metric / cannot draw)"""
        if lin.metric is None:
            return None
        try:
            with self.ift.random.Context(12345):
                smp = lin.metric.draw_sample()
            return {k: str(smp[k].dtype) for k in vkeys if k in smp.keys()}
        except Exception:
            return None

    def specialise(self, t, x, S, wm, pre=()):
        """Everything the property talks about, for the constant key set S (list of key indices).
        `pre`: want_metric flags of linearized calls made BEFORE the observed ones on the SAME objects (the
        specialised operator, and the original): the property quantifies over call histories -- the observed
        value/Jacobian/metric must not depend on how the operator was used before."""
        ift = self.ift
        X = self.point(x)
        op = self.op(t)
        okeys = list(op.domain.keys())
        ck = [B.key(k) for k in S]
        vk = [kk for kk in okeys if kk not in ck]
        loc = X.extract(op.domain)
        cst, var = loc.extract_by_keys(ck), loc.extract_by_keys(vk)
        c_out, op0 = op.simplify_for_constant_input(cst)
        out = {"okeys": okeys, "dom0": list(op0.domain.keys()), "tgt_same": op0.target is op.target}
        for pw in pre:
            op0(ift.Linearization.make_var(var, bool(pw)))
            op(ift.Linearization.make_partial_var(loc, ck, bool(pw)))
        v = op(loc)
        v0 = op0(var)
        out["plain"] = np.atleast_1d(v.asnumpy()).tolist()
        out["plain0"] = np.atleast_1d(v0.asnumpy()).tolist()
        m = len(out["plain"])
        l0 = op0(ift.Linearization.make_var(var, wm))
        out["linval0"] = np.atleast_1d(l0.val.asnumpy()).tolist()
        out["jt0"], out["ja0"], out["met0"] = self.dense(l0, list(op0.domain.keys()), m)
        lp = op(ift.Linearization.make_partial_var(loc, ck, wm))
        out["linvalp"] = np.atleast_1d(lp.val.asnumpy()).tolist()
        out["jtp"], out["jap"], out["metp"] = self.dense(lp, okeys, m)
        out["draw0"], out["drawp"] = self.draw_dtypes(l0, vk), self.draw_dtypes(lp, vk)
        lf = op(ift.Linearization.make_var(loc, wm))
        out["linval"] = np.atleast_1d(lf.val.asnumpy()).tolist()
        out["jt"], out["ja"], out["met"] = self.dense(lf, okeys, m)
        return out


def is_energy(t):
    return t[0] in ("gauss", "escale", "eadd", "vcg", "ham", "eaddE")


def tree_keys(t):
    if t[0] == "var":
        return {t[1]}
    if t[0] == "vcg":
        return {t[2], t[3]}
    s = set()
    for x in t[1:]:
        if isinstance(x, (tuple, list)) and x and isinstance(x[0], str):
            s |= tree_keys(x)
    return s


def vcg_nodes(t, acc=None):
    acc = [] if acc is None else acc
    if t[0] == "vcg":
        acc.append(t)
    for x in t[1:]:
        if isinstance(x, (tuple, list)) and x and isinstance(x[0], str):
            vcg_nodes(x, acc)
    return acc


def has_kind(t, kind):
    if t[0] == kind:
        return True
    return any(has_kind(x, kind) for x in t[1:] if isinstance(x, (tuple, list)) and x and isinstance(x[0], str))


# ======================================================================================================
# generation
# ======================================================================================================

def gen_cen(rng, depth, n, K, top=True, in_sum=False):
    """(a VariableCovarianceGaussianEnergy is never put under a likelihood sum: _LikelihoodSum takes its domain
    from the residual operators, which for that energy lack the inverse-covariance key, and then raises
    KeyError on evaluation -- a defect outside this property.)"""
    c = int(rng.integers(0, 8)) if depth > 0 else int(rng.integers(0, 3))
    if c == 2 and in_sum:
        c = 0
    if top and rng.random() < 0.3:
        return ("ham", gen_cen(rng, depth, n, K, top=False))
    if c <= 1:
        shp = "F" if rng.random() < 0.8 else "S"
        m = n if shp == "F" else 1
        data = None if rng.random() < 0.3 else [B.dy(rng) for _ in range(m)]
        icov = None if rng.random() < 0.4 else [float(rng.integers(1, 4)) for _ in range(m)]
        return ("gauss", data, icov, B.gen_tree(rng, int(rng.integers(1, 4)), n, K, shp))
    if c == 2:
        kr, ki = rng.choice(K, size=2, replace=False)
        return ("vcg", int(rng.integers(0, 2)), int(kr), int(ki))
    if c in (3, 4):
        return ("escale", float(rng.choice([4., 0.25, 1., -1., 9.])), gen_cen(rng, depth - 1, n, K, top=False, in_sum=in_sum))
    return ("eadd", gen_cen(rng, depth - 1, n, K, top=False, in_sum=True), gen_cen(rng, depth - 1, n, K, top=False, in_sum=True))


def inject_linear(rng, t, n, K, p=0.35):
    """replace some FieldAdapter leaves by LINEAR differences (SumOperator with a negated summand), half of them
    routed through a MultiDomain target (`a.ducktape_left('x') - b.ducktape_left('x')`)"""
    if t[0] == "var":
        if rng.random() < 0.15:
            # product / sum of two multi-output (MultiDomain target) operators, non-linear or linear factors
            def fac():
                u = B.gen_linear(rng, int(rng.integers(0, 2)), n, K)
                return ("ptw", "power", [2], u) if rng.random() < 0.6 else u
            return ("mprod" if rng.random() < 0.7 else "msum", fac(), fac(), fac(), fac())
        if rng.random() < p:
            kind = "lsub" if rng.random() < 0.6 else "lsubf"
            a = B.gen_linear(rng, int(rng.integers(0, 3)), n, K)
            b = B.gen_linear(rng, int(rng.integers(0, 3)), n, K)
            return (kind, a, b)
        return t
    if t[0] == "vcg":
        return t
    return tuple(inject_linear(rng, x, n, K, p) if isinstance(x, (tuple, list)) and x and isinstance(x[0], str) else x for x in t)


def gen_point(rng, n, K, t):
    """keys that feed a variable-covariance Gaussian as inverse covariance get positive squares of powers of two
    (sqrt and 1/i exact); half of the time all ones (then log(i) = 0 and the VALUE can be compared exactly)."""
    x = B.gen_point(rng, n, K)
    ones = rng.random() < 0.5
    for v in vcg_nodes(t):
        x[v[3]] = [1.0 if ones else float(rng.choice([1., 4., 0.25])) for _ in range(n)]
    return x


def guarded(t, x, n):
    if t[0] == "gauss":
        return B.guarded(t, x, n)
    if t[0] == "vcg":
        return True
    if t[0] in ("escale",):
        return guarded(t[2], x, n)
    if t[0] == "eadd":
        return guarded(t[1], x, n) and guarded(t[2], x, n)
    if t[0] == "ham":
        return guarded(t[1], x, n)
    return B.guarded(t, x, n)


def subsets(keys):
    keys = sorted(keys)
    for r in range(1, len(keys)):
        for s in itertools.combinations(keys, r):
            yield list(s)


# ======================================================================================================
# Coq terms
# ======================================================================================================

def ccen(t, n):
    k = t[0]
    if k == "gauss":
        mm = n if B.shape(t[3]) == "F" else 1
        return "(CGauss %d %s %s %s)" % (mm, C.copt(t[1], B.cvec), C.copt(t[2], B.cvec), B.cexpr(t[3], n))
    if k == "escale":
        return "(CScale %s %s)" % (B.cqc(t[1]), ccen(t[2], n))
    if k == "eadd":
        return "(CAddL %s %s)" % (ccen(t[1], n), ccen(t[2], n))
    if k == "vcg":
        return "(CVCG %d %s %d %d)" % (n, C.cbool(t[1]), t[2], t[3])
    if k == "ham":
        return "(CHam %s)" % ccen(t[1], n)
    raise ValueError(k)


HEADER = ("From Coq Require Import List ZArith QArith Qcanon Bool. Import ListNotations.\n"
          "Require Import NV.C03.Model NV.C03.ModelQ NV.C04.Model NV.C04.ModelQ.\nOpen Scope nat_scope.\n")


def cmet(m):
    return "None" if m is None else "(Some %s)" % B.cl4(m)


def checks_for(t, x, n, K, S, wm, o):
    dims = C.clist(["%d" % n] * K)
    cs = C.clist([C.cbool(k in S) for k in range(K)])
    r = B.cl2(x)
    if not is_energy(t):
        m = len(o["plain"])
        e = "(%s : qexpr)" % B.cexpr(t, n)
        return [
            ("simplified", "check_simpl_expr %s %d %s %s %s %s %s %s %s" % (dims, m, e, r, cs, B.cl1(o["plain0"]), B.cl1(o["linval0"]), B.cl3(o["jt0"]), B.cl3(o["ja0"]))),
            ("partial_var", "check_partial_expr %s %d %s %s %s %s %s %s" % (dims, m, e, r, cs, B.cl1(o["linvalp"]), B.cl3(o["jtp"]), B.cl3(o["jap"]))),
        ]
    h = "(%s : qcen)" % ccen(t, n)
    vn = vcg_nodes(t)
    # log(i) is rational only at i = 1: compare VALUES only then (Jacobians and metrics are rational anyway)
    cmpval = all(v == 1.0 for nd in vn for v in x[nd[3]])
    # _SpecialGammaEnergy's metric is Sandwich(sqrt(0.5)/i): sqrt(0.5)^2 rounds; compared with a tolerance in the oracle
    gamma = any(nd[2] in S and nd[3] not in S for nd in vn)
    flags0 = "%s %s %s" % (C.cbool(cmpval), C.cbool(not gamma), C.cbool(wm))
    flags = "%s true %s" % (C.cbool(cmpval), C.cbool(wm))
    return [
        ("simplified", "check_simpl_energy %s %s %s %s %s %s %s %s %s %s" % (flags0, dims, h, r, cs, B.cqc(o["plain0"][0]), B.cqc(o["linval0"][0]),
                                                                         B.cl3(o["jt0"]), B.cl3(o["ja0"]), cmet(o["met0"]))),
        ("partial_var", "check_partial_energy %s %s %s %s %s %s %s %s %s" % (flags, dims, h, r, cs, B.cqc(o["linvalp"][0]), B.cl3(o["jtp"]), B.cl3(o["jap"]), cmet(o["metp"]))),
        ("original", "check_orig_energy %s %s %s %s %s %s %s %s %s" % (flags, dims, h, r, B.cqc(o["plain"][0]), B.cqc(o["linval"][0]), B.cl3(o["jt"]), B.cl3(o["ja"]), cmet(o["met"]))),
    ]


# ======================================================================================================
# the property, directly on the implementation
# ======================================================================================================

def flip_uff(t, S):
    """the same tree with use_full_fisher=True for the variable-covariance nodes whose residual key is constant"""
    if t[0] == "vcg":
        if t[2] in S and t[3] not in S and not t[1]:
            return ("vcg", 1, t[2], t[3])
        return t
    return tuple(flip_uff(x, S) if isinstance(x, (tuple, list)) and x and isinstance(x[0], str) else x for x in t)


def ham_offset(impl, t, x, S):
    """0.5 |c|^2 over the constant keys of every StandardHamiltonian, with the scale factors above it."""
    k = t[0]
    keys = tree_keys(t)
    if not (keys & set(S)) or keys <= set(S):
        return 0.0
    if k == "escale":
        return t[1] * ham_offset(impl, t[2], x, S)
    if k == "ham":
        return ham_offset(impl, t[1], x, S) + 0.5 * sum(float(np.dot(x[kk], x[kk])) for kk in keys if kk in S)
    if k == "eaddE":
        return ham_offset(impl, t[1], x, S) + ham_offset(impl, t[2], x, S)
    return 0.0


def allclose(a, b, tol=1e-9):
    a, b = np.asarray(flat(a), dtype=float), np.asarray(flat(b), dtype=float)
    if a.shape != b.shape:
        return False
    sc = 1.0 + (np.max(np.abs(b)) if b.size else 0.0)
    return bool(np.all(np.abs(a - b) <= tol * sc))


def flat(x):
    if isinstance(x, (list, tuple)):
        r = []
        for v in x:
            r += flat(v)
        return r
    return [x]


def restrict_cols(jt, S):
    return [[[0.0] * len(col) for col in cols] if k in S else cols for k, cols in enumerate(jt)]


def restrict_rows(ja, S):
    return [[[0.0] * len(v) if k in S else v for k, v in enumerate(row)] for row in ja]


def restrict_met(met, S):
    if met is None:
        return None
    out = []
    for k, rows in enumerate(met):
        out.append([[[0.0] * len(v) if (k in S or kk in S) else v for kk, v in enumerate(row)] for row in rows])
    return out


def direct(impl, t, x, S, wm, pre=()):
    """list of (check, fn, detail) failures of the property for one case."""
    o = impl.specialise(t, x, S, wm, pre)
    fails = []
    vkeys = [kk for kk in o["okeys"] if kk not in [B.key(k) for k in S]]
    if sorted(o["dom0"]) != sorted(vkeys) or not o["tgt_same"]:
        fails.append(("domain", "simplify_for_constant_input", "domain of the specialised operator is %r, variable keys are %r" % (o["dom0"], vkeys)))
    if not allclose(o["plain0"], o["plain"], 1e-10):
        fails.append(("value", None, "op0(varloc) = %r but op(loc) = %r" % (o["plain0"], o["plain"])))
    if not allclose(o["linval0"], o["plain"], 1e-10) and allclose(o["plain0"], o["plain"], 1e-10):
        fails.append(("value", None, "op0(Linearization).val = %r but op(loc) = %r" % (o["linval0"], o["plain"])))
    if not allclose(o["jt0"], restrict_cols(o["jt"], S)):
        fails.append(("jacobian", None, "Jacobian of the specialised operator differs from the variable-key block of the original"))
    if not allclose(o["ja0"], restrict_rows(o["ja"], S)):
        fails.append(("jacobian_adjoint", None, "adjoint Jacobian of the specialised operator differs from the variable-key block of the original"))
    if not allclose(o["jtp"], restrict_cols(o["jt"], S)) or not allclose(o["jap"], restrict_rows(o["ja"], S)):
        fails.append(("partial_var", "Linearization.make_partial_var", "make_partial_var: constant-key block of the Jacobian is not zero / variable block differs"))
    if (o["met0"] is None) != (o["met"] is None):
        fails.append(("metric", None, "metric present for one of original / specialised only"))
    elif o["met"] is not None:
        if not allclose(o["met0"], restrict_met(o["met"], S)):
            fails.append(("metric", None, "metric of the specialised energy differs from the variable-key block of the original metric: %r vs %r"
                          % (flat(o["met0"])[:8], flat(restrict_met(o["met"], S))[:8])))
        if o["metp"] is None or not allclose(o["metp"], restrict_met(o["met"], S)):
            fails.append(("metric_partial_var", "Linearization.make_partial_var", "metric through make_partial_var is not the restricted metric"))
    if o.get("draw0") is not None and o.get("drawp") is not None and o["draw0"] != o["drawp"]:
        fails.append(("metric_sampling", None, "a sample drawn from the specialised metric has the dtypes %r, from the original's restricted metric %r"
                      % (o["draw0"], o["drawp"])))
    if is_energy(t):
        ift = impl.ift
        X = impl.point(x)
        op = impl.op(t)
        loc = X.extract(op.domain)
        ck_list = [B.key(k) for k in S]
        for cont in (tuple, set):
            # the same constants given as a tuple / a set
            ea2 = ift.EnergyAdapter(loc, op, constants=cont(ck_list), want_metric=wm)
            if sorted(ea2.gradient.keys()) != sorted(vkeys) or sorted(ea2.position.keys()) != sorted(vkeys):
                fails.append(("energy_adapter", "EnergyAdapter", "constants given as a %s: position/gradient keep the keys %r, variable keys are %r"
                              % (cont.__name__, sorted(ea2.gradient.keys()), sorted(vkeys))))
            elif wm and ea2.metric is not None and sorted(ea2.metric.domain.keys()) != sorted(vkeys):
                fails.append(("energy_adapter", "EnergyAdapter", "constants given as a %s: metric domain keeps constant keys" % cont.__name__))
        ea = ift.EnergyAdapter(loc, op, constants=ck_list, want_metric=wm)
        gk = sorted(ea.gradient.keys())
        if gk != sorted(vkeys):
            fails.append(("energy_adapter", "EnergyAdapter", "gradient has the keys %r, variable keys are %r" % (gk, vkeys)))
        else:
            g = [np.asarray(ea.gradient[B.key(k)].asnumpy()).tolist() if B.key(k) in gk else [0.0] * impl.n for k in range(impl.K)]
            if not allclose([g], restrict_rows(o["ja"], S)):
                fails.append(("energy_adapter", "EnergyAdapter", "gradient differs from the restricted gradient"))
        if not allclose([ea.value], o["plain0"], 1e-10):
            fails.append(("energy_adapter", "EnergyAdapter", "value %r differs from op0(varloc) %r" % (ea.value, o["plain0"])))
    return fails, o


def attribute(impl, t, x, S, wm, check, o):
    """Signature of a failure.  A failure is attributed to a documented finding only when the property holds
    once exactly that behaviour is taken out."""
    if check == "value" and has_kind(t, "ham"):
        off = ham_offset(impl, t, x, S)
        if off != 0.0 and allclose([o["plain0"][0] + off], o["plain"], 1e-10):
            return {"fn": "StandardHamiltonian", "check": "value", "explained_by": "prior energy of the constant keys"}
    if check == "metric" and any((not nd[1]) and nd[2] in S and nd[3] not in S for nd in vcg_nodes(t)):
        t2 = flip_uff(t, S)
        f2, _ = direct(impl, t2, x, S, wm)
        if not any(f[0] == "metric" for f in f2):
            # and nothing but those nodes' use_full_fisher matters: the specialised metrics coincide
            o2 = impl.specialise(t2, x, S, wm)
            if allclose(o2["met0"], o["met0"]):
                return {"fn": "VariableCovarianceGaussianEnergy", "check": "metric", "use_full_fisher": False, "constant": "residual"}
    return {"fn": "simplify_for_constant_input", "check": check, "root": t[0]}


def vcg_complex_direct(inp):
    """VariableCovarianceGaussianEnergy with a COMPLEX residual (sampling dtype complex128), optionally scaled /
    under a StandardHamiltonian: for each of the two keys constant, the specialised energy against the original on
    make_partial_var: value, gradient, metric applied to random tangents.  List of (check, detail)."""
    import nifty.cl as ift
    quiet()
    n, uff, wrap, seed = inp["n"], bool(inp["uff"]), inp["wrap"], inp["seed"]
    rng = np.random.default_rng([seed, 404])
    dom = ift.DomainTuple.make(ift.UnstructuredDomain(n))
    e = ift.VariableCovarianceGaussianEnergy(dom, "r", "i", np.complex128, use_full_fisher=uff)
    if wrap == "scale":
        e = 4.0 * e
    elif wrap == "ham":
        e = ift.StandardHamiltonian(e)
    loc = ift.MultiField.from_dict({"r": ift.Field.from_raw(dom, rng.normal(size=n) + 1j * rng.normal(size=n)),
                                    "i": ift.Field.from_raw(dom, rng.uniform(0.5, 3.0, size=n))})
    fails = []
    for cst in inp["consts"]:
        var = "i" if cst == "r" else "r"
        cstloc, varloc = loc.extract_by_keys([cst]), loc.extract_by_keys([var])
        _, e0 = e.simplify_for_constant_input(cstloc)
        full = e(ift.Linearization.make_partial_var(loc, [cst], want_metric=True))
        part = e0(ift.Linearization.make_var(varloc, want_metric=True))
        v0, v1 = complex(full.val.asnumpy()), complex(part.val.asnumpy())
        off = 0.5 * float(np.vdot(cstloc[cst].asnumpy(), cstloc[cst].asnumpy()).real) if wrap == "ham" else 0.0
        if abs(v1 + off - v0) > 1e-10 * (1 + abs(v0)):
            fails.append(("value", "const=%s: specialised value %r (+ known offset %r), original %r" % (cst, v1, off, v0)))
        elif off != 0.0 and abs(v1 - v0) > 1e-10 * (1 + abs(v0)):
            fails.append(("value_ham", "const=%s: specialised StandardHamiltonian lacks the prior energy of the constant key" % cst))
        g0, g1 = full.gradient, part.gradient
        if not np.allclose(g0[var].asnumpy(), g1[var].asnumpy(), rtol=1e-10, atol=1e-12):
            fails.append(("jacobian", "const=%s: gradient of the specialised energy differs from the original's variable block" % cst))
        if np.any(g0[cst].asnumpy() != 0):
            fails.append(("partial_var", "const=%s: gradient leaks into the constant key" % cst))
        if (full.metric is None) != (part.metric is None):
            fails.append(("metric", "const=%s: metric present for one of original / specialised only" % cst))
        elif full.metric is not None:
            def draw(m):
                try:
                    with ift.random.Context(int(seed) + 99):
                        return str(m.draw_sample()[var].dtype)
                except Exception as e:
                    return "raises " + type(e).__name__
            d0, d1 = draw(full.metric), draw(part.metric)
            if d0 != d1:
                fails.append(("metric_sampling", "const=%s: a sample drawn from the specialised metric has dtype %s for key %s, from the original's metric %s"
                              % (cst, d1, var, d0)))
            for _ in range(3):
                tv = rng.normal(size=n) + (1j * rng.normal(size=n) if var == "r" else 0.0)
                t = ift.MultiField.from_dict({var: ift.Field.from_raw(dom, tv)}, domain=varloc.domain)
                tf = ift.MultiField.from_dict({var: ift.Field.from_raw(dom, tv),
                                               cst: ift.Field.from_raw(dom, np.zeros(n, dtype=cstloc[cst].dtype))}, domain=loc.domain)
                m0, m1 = full.metric(tf)[var].asnumpy(), part.metric(t)[var].asnumpy()
                if not np.allclose(m0, m1, rtol=1e-9, atol=1e-12):
                    fails.append(("metric", "const=%s: specialised metric %r, original restricted %r" % (cst, m1.tolist(), m0.tolist())))
                    break
    return fails


def vcg_complex_signature(inp, f):
    if f[0] == "metric_sampling":
        if f[1].startswith("const=r"):
            # open finding C04-F3 (residual constant: _SpecialGammaEnergy samples the real inverse covariance with the
            # residual's complex dtype); the other branch (inverse covariance constant) has its own signature
            return {"fn": "_SpecialGammaEnergy", "check": "metric_sampling", "constant": "residual"}
        return {"fn": "VariableCovarianceGaussianEnergy", "check": "metric_sampling", "constant": "inverse_covariance"}
    if f[0] == "value_ham":
        return {"fn": "StandardHamiltonian", "check": "value", "explained_by": "prior energy of the constant keys"}
    if f[0] == "metric" and not inp["uff"] and f[1].startswith("const=r"):
        # use_full_fisher=False with the residual constant is the open finding C04-F1 -- but only if the SAME case
        # with use_full_fisher=True satisfies the property (so that nothing else hides behind it)
        g = vcg_complex_direct(dict(inp, uff=True, consts=["r"]))
        if not any(x[0] == "metric" for x in g):
            return {"fn": "VariableCovarianceGaussianEnergy", "check": "metric", "use_full_fisher": False, "constant": "residual"}
    return {"fn": "VariableCovarianceGaussianEnergy", "check": f[0], "complex": True, "use_full_fisher": bool(inp["uff"]), "wrap": inp["wrap"]}


def kl_direct(inp):
    """SampledKLEnergy(position, H, n_samples, None, constants=..., point_estimates=...) against an INDEPENDENT average
    over its own samples of the ORIGINAL Hamiltonian on Linearization.make_partial_var(sample, constants): value (up to
    the known StandardHamiltonian offset C04-F2), gradient, metric applied to random tangents; also after kl.at(...)."""
    import nifty.cl as ift
    quiet()
    n, seed, consts, pes = inp["n"], inp["seed"], list(inp["constants"]), list(inp["point_estimates"])
    dom = ift.UnstructuredDomain(n)
    a, b, c = [ift.FieldAdapter(dom, k) for k in "abc"]
    fails = []
    with ift.random.Context(int(seed) + 4242):
        d = ift.from_random(dom)
        model = [a.exp() * b + c.tanh(), (a * b).tanh() + c.exp() * a, a * a * b + c][inp["model"] % 3]
        lh = ift.GaussianEnergy(data=d, sampling_dtype=np.float64) @ model
        ic = ift.AbsDeltaEnergyController(1e-14, iteration_limit=200)
        H = ift.StandardHamiltonian(lh, ic_samp=ic, prior_sampling_dtype=np.float64)
        pos = ift.from_random(H.domain) * 0.4
        cont = {"list": list, "tuple": tuple, "set": set}[inp.get("container", "list")]
        kl = ift.SampledKLEnergy(pos, H, int(inp["n_samples"]), None, mirror_samples=bool(inp["mirror"]),
                                 constants=cont(consts), point_estimates=cont(pes))
        for stage in ("initial", "after at()"):
            if stage != "initial":
                kl = kl.at(kl.position + 0.1 * ift.from_random(kl.position.domain))
            xs = list(kl.samples.iterator())
            eff = [k for k in consts]           # every constant key must be frozen, whether point estimate or not
            vals, grads, offs = [], [], []
            for smp in xs:
                l = H(ift.Linearization.make_partial_var(smp, eff, True))
                vals.append(float(l.val.asnumpy()[()]))
                grads.append(l.gradient)
                offs.append(sum(0.5 * float(np.vdot(smp[k].asnumpy(), smp[k].asnumpy())) for k in eff))
            vref, oref = float(np.mean(vals)), float(np.mean(offs))
            if abs(kl.value - vref) > 1e-9 * (1 + abs(vref)):
                if abs(kl.value + oref - vref) <= 1e-9 * (1 + abs(vref)):
                    fails.append(("value_ham", "%s: KL value lacks the prior energy of the constant keys" % stage))
                else:
                    fails.append(("value", "%s: KL value %r, independent sample average %r (known offset %r)" % (stage, kl.value, vref, oref)))
            gk = sorted(kl.gradient.keys())
            vk = sorted(k for k in H.domain.keys() if k not in eff)
            if gk != vk:
                fails.append(("energy_adapter", "%s: KL gradient has the keys %r, variable keys are %r" % (stage, gk, vk)))
                continue
            for k in vk:
                gref = np.mean([g[k].asnumpy() for g in grads], axis=0)
                if not np.allclose(kl.gradient[k].asnumpy(), gref, rtol=1e-9, atol=1e-11):
                    fails.append(("jacobian", "%s: KL gradient[%s] %r, independent sample average %r" % (stage, k, kl.gradient[k].asnumpy().tolist(), gref.tolist())))
                    break
            t = ift.from_random(kl.gradient.domain)
            tf = ift.MultiField.union([0. * xs[0], t])
            mref = {k: np.mean([H(ift.Linearization.make_partial_var(smp, eff, True)).metric(tf)[k].asnumpy() for smp in xs], axis=0) for k in vk}
            got = kl.apply_metric(t)
            for k in vk:
                if not np.allclose(got[k].asnumpy(), mref[k], rtol=1e-8, atol=1e-10):
                    fails.append(("metric", "%s: KL metric[%s] %r, independent sample average %r" % (stage, k, got[k].asnumpy().tolist(), mref[k].tolist())))
                    break
    return fails


def run_direct(inp):
    quiet()
    if inp.get("what") == "kl":
        out = []
        for f in kl_direct(inp):
            if f[0] == "value_ham":
                sig = {"fn": "StandardHamiltonian", "check": "value", "explained_by": "prior energy of the constant keys"}
            else:
                sig = {"fn": "SampledKLEnergy", "check": f[0], "constants_not_point_estimates": sorted(set(inp["constants"]) - set(inp["point_estimates"]))}
            out.append(((f[0], None, f[1]), sig))
        return out
    if inp.get("what") == "vcg_complex":
        return [((f[0], None, f[1]), vcg_complex_signature(inp, f)) for f in vcg_complex_direct(inp)]
    t = B.tuple_tree(inp["tree"])
    impl = Impl(inp["n"], inp["K"])
    with np.errstate(all="ignore"):
        pre = tuple(inp.get("pre", ()))
        fails, o = direct(impl, t, inp["x"], inp["S"], bool(inp["wm"]), pre)
        out = [(f, attribute(impl, t, inp["x"], inp["S"], bool(inp["wm"]), f[0], o)) for f in fails]
        if pre:
            # a failure that appears only after earlier calls on the same object is a call-history dependence
            base = {g[0] for g in direct(Impl(inp["n"], inp["K"]), t, inp["x"], inp["S"], bool(inp["wm"]))[0]}
            out = [(f, (sig if f[0] in base else {"fn": "simplify_for_constant_input", "check": f[0], "history": "depends on earlier calls"}))
                   for f, sig in out]
        return out


# ======================================================================================================
# the check
# ======================================================================================================

class C04(C.Check):
    prop = PROP
    coq_dir = "C04"
    trusted_base = [
        "Coq 8.16.1 kernel (coqc; vm_compute for the correspondence evaluation); functional_extensionality_dep (standard library) in the energy theorems",
        "hand-written model coq/C04/Model.v of simplify_for_constant_input and the per-class methods over the C03 expression language (tied by the exact correspondence on generated trees and every key subset)",
        "C03's model of Linearization/Jacobians/metrics and its translator-generated exact pointwise table (Gen_PtwQ.v), incl. the partial exact primitives Qsqrt_exact / Qlog_at1 used on inputs where they are exact",
        "harness/props/c04.py and c03.py: tree builders, float-exactness guard",
    ]
    assumptions = [
        "real fields; sums/contractions over whole fields; MultiDomain inputs whose keys all carry fields of the same size",
        "variable-covariance Gaussian: real sampling dtype, residual key != inverse-covariance key",
        "StandardHamiltonian without iteration controller (ic_samp=None), so that its metric is lh.metric + 1",
    ]

    def __init__(self):
        self.cases = []

    def translate(self, ctx):
        # the exact pointwise table (Gen_PtwQ.v) this model is executed with is C03's translator output
        from .c03 import CHECK as C03CHECK
        C03CHECK.translate(ctx)

    def gen_cases(self, ctx):
        rng = ctx.rng(4)
        cases = []
        for c in ctx.corpus():
            if c.get("kind") == "case":
                cases.append({"tree": B.tuple_tree(c["tree"]), "x": c["x"], "n": c["n"], "K": c["K"]})
        nex, nen = (20, 28) if ctx.quick else (250, 350)
        tries = 0
        while sum(1 for c in cases if not is_energy(c["tree"])) < nex and tries < 5000:
            tries += 1
            n, K = int(rng.integers(1, 3)), int(rng.integers(2, 4))
            t = B.gen_tree(rng, int(rng.integers(2, 5)), n, K, "F" if rng.random() < 0.6 else "S")
            if tries % 2 == 0:
                t = inject_linear(rng, t, n, K)
            if len(tree_keys(t)) < 2:
                continue
            x = B.gen_point(rng, n, K)
            if not B.guarded(t, x, n):
                continue
            cases.append({"tree": t, "x": x, "n": n, "K": K})
        tries = 0
        while sum(1 for c in cases if is_energy(c["tree"])) < nen and tries < 5000:
            tries += 1
            n, K = int(rng.integers(1, 3)), int(rng.integers(2, 4))
            t = gen_cen(rng, int(rng.integers(0, 3)), n, K)
            if tries % 3 == 0:
                t = inject_linear(rng, t, n, K)
            if len(tree_keys(t)) < 2:
                continue
            x = gen_point(rng, n, K, t)
            if not guarded(t, x, n):
                continue
            cases.append({"tree": t, "x": x, "n": n, "K": K})
        return cases

    def correspondence(self, ctx, res):
        quiet()
        cases = self.gen_cases(ctx)
        self.cases = cases
        checks, meta = [], []
        for ci, c in enumerate(cases):
            impl = Impl(c["n"], c["K"])
            t, x = c["tree"], c["x"]
            for S in subsets(tree_keys(t)):
                # (want_metric, earlier calls on the same objects): the model is a pure function of the call
                combos = [(False, ())] if not is_energy(t) else [(False, ()), (True, ()), (True, (False,)), (False, (True,))]
                for wm, pre in combos:
                    try:
                        o = impl.specialise(t, x, S, wm, pre)
                        for nm, chk in checks_for(t, x, c["n"], c["K"], S, wm, o):
                            checks.append(chk)
                            meta.append((ci, S, wm, nm + ("" if not pre else " after calls with want_metric=%r" % (list(pre),))))
                    except Exception as e:
                        checks.append("false")
                        meta.append((ci, S, wm, "raised %s: %s" % (type(e).__name__, str(e)[:200])))
        bad = eval_cases_private(self.prop, HEADER, checks)
        for i in bad[:4]:
            ci, S, wm, nm = meta[i]
            c = cases[ci]
            res.add_broken("correspondence", "simplify_for_constant_input vs coq/C04/Model.v",
                           {"tree": B.tolist(c["tree"]), "x": c["x"], "n": c["n"], "K": c["K"], "S": S, "wm": wm, "what": nm})
        dist = {}
        for c in cases:
            for k in B.kinds(c["tree"]):
                dist[k] = dist.get(k, 0) + 1
        nontriv = {(json.dumps(B.tolist(cases[ci]["tree"])), tuple(S)) for ci, S, wm, nm in meta
                   if B.depth_of(cases[ci]["tree"]) >= 2}
        res.coverage.update({
            "evaluations": len(checks), "distinct_nontrivial": len(nontriv),
            "rule": "random multi-key operator trees and energy trees (Gaussian chains, scaled, summed, variable-covariance Gaussian with both "
                    "use_full_fisher settings, StandardHamiltonian), 2-3 keys, 1-2 pixels, EVERY non-empty proper subset of the tree's keys constant, "
                    "energies with and without want_metric; per (tree, subset): specialised operator, make_partial_var, original; "
                    "non-trivial = tree depth >= 2; distinct by (tree, subset)",
            "samples": [{"tree": B.tolist(c["tree"]), "x": c["x"]} for c in cases[2:5]],
            "input_distribution": dist, "disagreements": len(bad), "subsets": len({(m[0], tuple(m[1])) for m in meta}),
            "exhaustive": False,
        })
        return [("case", meta[i][0], meta[i][1], meta[i][2]) for i in bad]

    def oracle(self, ctx, res, hints, budget):
        quiet()
        rng = ctx.rng(44)
        nev = 0
        seen_sig = {}

        def report(inp):
            nonlocal nev
            nev += 1
            try:
                fs = run_direct(inp)
            except Exception as e:
                fs = [(("raised", None, "%s: %s" % (type(e).__name__, str(e)[:300])), {"fn": "simplify_for_constant_input", "check": "raised"})]
            for f, sig in fs:
                k = json.dumps(sig, sort_keys=True)
                if seen_sig.get(k, 0) < 2:
                    seen_sig[k] = seen_sig.get(k, 0) + 1
                    res.add_failing(sig, "%s: %s" % (f[0], f[2]), dict(inp, kind="direct"))

        for c in ctx.corpus():
            if c.get("kind") == "direct":
                report({k: c[k] for k in ("tree", "x", "n", "K", "S", "wm", "pre") if k in c})
        # sampled KL energies with constants that are not point estimates (samples vary along the constant keys)
        kl_cfg = [(["a"], []), (["a"], ["c"]), (["a", "b"], ["b"]), (["b"], ["b", "c"]), (["c"], [])]
        for i in range((4 if ctx.quick else 20) * budget):
            cs_, pe_ = kl_cfg[i % len(kl_cfg)]
            report({"what": "kl", "n": 2 + i % 2, "seed": ctx.seed * 100 + i, "constants": cs_, "point_estimates": pe_,
                    "n_samples": 2 + i % 2, "mirror": i % 2 == 0, "model": i, "container": ["list", "tuple", "set"][i % 3]})
        # complex residuals (the Coq model is real): variable-covariance Gaussian, both keys constant in turn
        for i in range((6 if ctx.quick else 40) * budget):
            report({"what": "vcg_complex", "n": 1 + i % 3, "uff": i % 4 != 3, "wrap": ["none", "scale", "ham"][i % 3],
                    "consts": ["r", "i"], "seed": ctx.seed * 1000 + i})
        # the exact cases (their dyadic points) ...
        lim = (60 if ctx.quick else 600) * budget
        order = [h[1] for h in hints if h[0] == "case"] + list(range(len(self.cases)))
        done = set()
        for ci in order:
            if ci in done or len(done) >= lim:
                continue
            done.add(ci)
            c = self.cases[ci]
            for S in subsets(tree_keys(c["tree"])):
                for wm, pre in ([(False, [])] if not is_energy(c["tree"]) else [(True, []), (True, [False]), (False, [True, False])]):
                    report({"tree": B.tolist(c["tree"]), "x": c["x"], "n": c["n"], "K": c["K"], "S": S, "wm": wm, "pre": pre})
        # ... and random float trees over the whole pointwise table at random points
        ntrees = (20 if ctx.quick else 200) * budget
        for it in range(ntrees):
            n, K = int(rng.integers(1, 4)), int(rng.integers(2, 4))
            impl = Impl(n, K)
            x = [[float(rng.uniform(-2, 2)) for _ in range(n)] for _ in range(K)]
            g = B.FloatGen(rng, impl, x, B.FLOAT_PTW, False)
            try:
                t = g.gen(int(rng.integers(2, 5)), "F" if rng.random() < 0.6 else "S")
            except (FloatingPointError, ValueError, TypeError):
                continue
            if it % 2 == 0:
                m = n if B.shape(t) == "F" else 1
                t = ("gauss", [float(rng.normal()) for _ in range(m)], [float(rng.uniform(0.5, 2)) for _ in range(m)], t)
                r = it % 6
                if r == 0:
                    kr, ki = [int(v) for v in rng.choice(K, size=2, replace=False)]
                    x[ki] = [float(rng.uniform(0.5, 3)) for _ in range(n)]
                    if not g.valid_at(x):
                        continue
                    t = ("ham", ("vcg", int(it % 12 == 0), kr, ki))
                elif r == 2:
                    t = ("ham", ("escale", 2.0, t))
            if is_energy(t) and it % 4 == 0 and t[0] != "ham":
                # sum of two Hamiltonians on (partly) different keys: one of them may become fully constant
                k2 = int(rng.integers(0, K))
                t = ("eaddE", ("ham", t), ("ham", ("gauss", None, None, ("ptw", "tanh", [], ("var", k2)))))
            if len(tree_keys(t)) < 2:
                continue
            for S in subsets(tree_keys(t)):
                report({"tree": B.enc(t), "x": x, "n": n, "K": K, "S": S, "wm": is_energy(t), "pre": [False] if is_energy(t) else []})
        res.coverage["impl_property_evaluations"] = nev

    def replay(self, ctx, rp):
        inp = rp["input"]
        fs = run_direct(inp)
        want = rp.get("signature", {})
        still = [f for f, sig in fs if all(sig.get(a) == b for a, b in want.items())] if want else fs
        for f in still[:3]:
            print("  still fails: %s: %s" % (f[0], f[2]))
        return bool(still)


CHECK = C04()
