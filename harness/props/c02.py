"""C02 -- Every library linear operator is adjoint/inverse consistent and correct.

Tie: hand model coq/C02/Model.v (one sparse-triplet `spec_K params` per modelled operator class, target
shape formulas, `_special_add_at`) + correspondence: generated domains and constructor arguments; the
implementation's dense matrices in every advertised mode (TIMES, ADJOINT, and the inverses where
advertised), its domain/target shapes, are compared EXACTLY inside coqc (vm_compute over Qc) with the
triplet matrix of the spec (weights are integers or dyadic rationals, so float64 is exact).
Direct oracle (independent of Coq): for every class of the catalogue (modelled or not) adjointness,
inverse, linearity, complex-linearity, real/complex probe consistency, target identity, input not
modified, and the dense matrix against a NumPy reference written from the documented formula."""
import contextlib
import io
import json
import os
import re
import shutil
import subprocess
import time

import numpy as np

from .. import common as C
from . import c02_ops as O

MODES = [1, 2, 4, 8]
MODE_NAME = {1: "TIMES", 2: "ADJOINT_TIMES", 4: "INVERSE_TIMES", 8: "ADJOINT_INVERSE_TIMES"}


# ---------------------------------------------------------------------------------------------
# fields <-> flat vectors (MultiDomain: keys in sorted order)
# ---------------------------------------------------------------------------------------------
def dom_size(dom):
    return int(dom.size)


def to_field(ift, dom, v):
    if isinstance(dom, ift.DomainTuple):
        return ift.Field.from_raw(dom, np.array(v).reshape(dom.shape))
    out, off = {}, 0
    for k in dom.keys():
        n = dom[k].size
        out[k] = ift.Field.from_raw(dom[k], np.array(v[off:off + n]).reshape(dom[k].shape))
        off += n
    return ift.MultiField.from_dict(out, domain=dom)


def to_vec(ift, f):
    if isinstance(f, ift.Field):
        return np.asarray(f.asnumpy()).reshape(-1)
    return np.concatenate([np.asarray(f[k].asnumpy()).reshape(-1) for k in f.domain.keys()]) if len(f.domain.keys()) else np.zeros(0)


def dom_shapes(ift, dom):
    if isinstance(dom, ift.DomainTuple):
        return [list(d.shape) for d in dom]
    return {k: [list(d.shape) for d in dom[k]] for k in dom.keys()}


def split_ri(y):
    y = np.asarray(y, dtype=complex)
    out = np.empty(2 * y.size)
    out[0::2] = y.real
    out[1::2] = y.imag
    return out


class Probe:
    """dense matrices of one operator in one mode; raises are recorded, never propagated"""

    def __init__(self, ift, op, mode, want_real, want_complex):
        self.err = None
        self.R = None       # real 2m x 2n form from complex basis probes e_j, i e_j
        self.r = None       # complex m x n from float64 basis probes
        self.notes = []
        d, t = op._dom(mode), op._tgt(mode)
        n, m = dom_size(d), dom_size(t)
        self.m, self.n = m, n
        try:
            if want_complex:
                R = np.zeros((2 * m, 2 * n))
                for j in range(n):
                    for c, val in ((0, 1.0 + 0j), (1, 1j)):
                        v = np.zeros(n, dtype=complex)
                        v[j] = val
                        R[:, 2 * j + c] = split_ri(self.run(ift, op, mode, d, t, v))
                self.R = R
            if want_real:
                r = np.zeros((m, n), dtype=complex)
                for j in range(n):
                    v = np.zeros(n, dtype=np.float64)
                    v[j] = 1.0
                    r[:, j] = self.run(ift, op, mode, d, t, v)
                self.r = r
        except Exception as ex:          # an advertised mode must not raise on a field of its domain
            self.err = "%s: %s" % (type(ex).__name__, " ".join(str(ex).split())[:160])

    def run(self, ift, op, mode, d, t, v):
        x = to_field(ift, d, v)
        before = to_vec(ift, x).copy()
        y = op.apply(x, mode)
        if not np.array_equal(before, to_vec(ift, x)):
            self.notes.append("input modified")
        if y.domain is not t:
            self.notes.append("output domain is not the declared one")
        out = to_vec(ift, y)
        if out.size != dom_size(t):
            self.notes.append("output size differs from the declared domain")
        return out


def is_complex_linear(R):
    a, b = R[0::2, 0::2], R[0::2, 1::2]
    c, d = R[1::2, 0::2], R[1::2, 1::2]
    return np.array_equal(a, d) and np.array_equal(b, -c)


def observe(ift, kl, cfg):
    """Build the operator and record capability, shapes and dense matrices per advertised mode."""
    with contextlib.redirect_stdout(io.StringIO()):      # MatrixProductOperator.apply prints a debug line
        return _observe(ift, kl, cfg)


def _observe(ift, kl, cfg):
    o = {"cls": kl.name, "cfg": cfg}
    try:
        op = kl.build(ift, cfg)
        o["cap"] = int(op.capability)
    except Exception as ex:
        o["build_error"] = "%s: %s" % (type(ex).__name__, " ".join(str(ex).split())[:160])
        return o, None
    o["dom_shapes"] = dom_shapes(ift, op.domain)
    o["tgt_shapes"] = dom_shapes(ift, op.target)
    o["m"], o["n"] = dom_size(op.target), dom_size(op.domain)
    o["probe"] = {}
    for mode in MODES:
        if not (o["cap"] & mode):
            continue
        want_c = not kl.real_only.get(mode, False)
        want_r = not kl.complex_only.get(mode, False)
        o["probe"][mode] = Probe(ift, op, mode, want_r, want_c)
    return o, op


def close(a, b, tol):
    a, b = np.asarray(a), np.asarray(b)
    if a.shape != b.shape:
        return False
    if a.size == 0:
        return True
    if not (np.all(np.isfinite(a)) and np.all(np.isfinite(b))):
        return False
    return float(np.abs(a - b).max()) <= tol * (1.0 + float(np.abs(b).max()))


def rmat_of(kl, p):
    """the real form of a probe (from the complex probes if present, else from the real ones)"""
    if p.R is not None:
        return p.R
    R = np.zeros((2 * p.m, 2 * p.n))
    R[0::2, 0::2] = p.r.real
    R[1::2, 0::2] = p.r.imag
    return R


def direct(ift, kl, o, op, rng):
    """The property on the implementation, independent of Coq.  Returns (branch, message) or None."""
    with contextlib.redirect_stdout(io.StringIO()):
        return _direct(ift, kl, o, op, rng)


def _direct(ift, kl, o, op, rng):
    if "build_error" in o:
        return ("construct", "constructing an admissible configuration raised " + o["build_error"])
    pr = o["probe"]
    for mode, p in pr.items():
        if p.err:
            return ("apply-raises", "advertised mode %s raises %s" % (MODE_NAME[mode], p.err))
        if p.notes:
            return ("contract", "mode %s: %s" % (MODE_NAME[mode], p.notes[0]))
    tol = 1e-10 if kl.tol is None else max(kl.tol, 1e-12)
    # a singular operator (e.g. two diagonals whose difference has a zero entry) has no inverse: its
    # advertised inverse modes return inf/nan and are not judged
    if 1 in pr and (pr[1].R is not None or pr[1].r is not None):
        Mt = pr[1].R if pr[1].R is not None else pr[1].r
        if Mt.shape[0] == Mt.shape[1] and Mt.size and np.all(np.isfinite(Mt)) and np.linalg.matrix_rank(Mt) < Mt.shape[0]:
            pr = {m: p for m, p in pr.items() if m in (1, 2) or
                  all(np.all(np.isfinite(a)) for a in (p.R, p.r) if a is not None)}
    decl = kl.decl(o["cfg"])
    if decl is not None:
        msg = check_decl(ift, op, decl)
        if msg:
            return ("declared-domain", "declared " + msg)
    # real probes agree with complex probes, complex-linearity
    for mode, p in pr.items():
        if p.R is not None and p.r is not None:
            rr = np.zeros((2 * p.m, p.n))
            rr[0::2] = p.r.real
            rr[1::2] = p.r.imag
            if not close(rr, p.R[:, 0::2], tol):
                return ("dtype", "mode %s: action on float64 input differs from the action on the same complex input" % MODE_NAME[mode])
        if p.R is not None and not kl.real_linear and not close(p.R[0::2, 0::2], p.R[1::2, 1::2], tol) or \
           (p.R is not None and not kl.real_linear and not close(p.R[0::2, 1::2], -p.R[1::2, 0::2], tol)):
            return ("complex-linear", "mode %s: A(i x) != i A(x)" % MODE_NAME[mode])
    # adjointness  <y, A x> = <A^H y, x>  (real part for real-linear): R_adj = R_times^T
    if 1 in pr and 2 in pr:
        Rt, Ra = rmat_of(kl, pr[1]), rmat_of(kl, pr[2])
        T = Rt.T
        rows = range(T.shape[0]) if pr[1].R is not None else range(0, T.shape[0], 2)
        colsl = range(T.shape[1]) if pr[2].R is not None else range(0, T.shape[1], 2)
        sub_t = T[np.ix_(list(rows), list(colsl))]
        sub_a = Ra[np.ix_(list(rows), list(colsl))]
        if not close(sub_a, sub_t, tol):
            return ("adjoint", "adjointness violated: ADJOINT_TIMES matrix is not the (Hermitian) transpose of the TIMES matrix (max diff %.3g)"
                    % float(np.abs(sub_a - sub_t).max()))
    # inverses
    if kl.check_inverse and 1 in pr and 4 in pr and pr[1].R is not None and pr[4].R is not None:
        P = pr[4].R @ pr[1].R
        if not close(P, np.eye(P.shape[0]), 1e-9):
            return ("inverse", "INVERSE_TIMES does not invert TIMES (max diff %.3g)" % float(np.abs(P - np.eye(P.shape[0])).max()))
    if kl.check_inverse and 4 in pr and 8 in pr and pr[4].R is not None and pr[8].R is not None:
        if not close(pr[8].R, pr[4].R.T, 1e-9):
            return ("inverse", "ADJOINT_INVERSE_TIMES is not the adjoint of INVERSE_TIMES")
    # linearity on random vectors (real coefficients for real-linear operators)
    for mode, p in pr.items():
        if not kl.check_inverse and mode in (4, 8):
            continue        # ill-conditioned inverse (smoothing kernel): rounding errors are amplified
        d, t = op._dom(mode), op._tgt(mode)
        n = dom_size(d)
        cplx = p.R is not None
        x = rng.integers(-4, 5, size=n) + (1j * rng.integers(-4, 5, size=n) if cplx else 0)
        y = rng.integers(-4, 5, size=n) + (1j * rng.integers(-4, 5, size=n) if cplx else 0)
        a = float(rng.integers(-3, 4)) + (0.5j if (cplx and not kl.real_linear) else 0)
        b = float(rng.integers(1, 4))
        x, y = (x.astype(complex), y.astype(complex)) if cplx else (x.astype(float), y.astype(float))
        try:
            f = lambda v: to_vec(ift, op.apply(to_field(ift, d, v), mode)).astype(complex)
            lhs = f(a * x + b * y)
            rhs = a * f(x) + b * f(y)
        except Exception as ex:
            return ("apply-raises", "mode %s raises on a random field: %s" % (MODE_NAME[mode], type(ex).__name__))
        if not close(lhs, rhs, 1e-9):
            return ("linear", "mode %s is not linear: A(ax+by) != aAx+bAy" % MODE_NAME[mode])
        # and the dense matrix predicts the action
        if cplx:
            pred = p.R @ split_ri(x)
            if not close(pred, split_ri(f(x)), 1e-9):
                return ("linear", "mode %s: action on a random vector differs from the dense matrix" % MODE_NAME[mode])
    # documented action
    ref = kl.ref(o["cfg"])
    if ref is not None:
        Rref = ref if kl.real_linear else O.rform(ref)
        exp = {1: Rref, 2: Rref.T}
        iref = kl.inv_ref(o["cfg"])
        if iref is not None:
            Ri = iref if kl.real_linear else O.rform(iref)
            exp[4], exp[8] = Ri, Ri.T
        for mode, p in pr.items():
            if mode not in exp:
                continue
            E = exp[mode]
            got = rmat_of(kl, p)
            if p.R is None:
                E = E[:, 0::2]
                got = got[:, 0::2]
            if got.shape != E.shape:
                return ("shape", "mode %s: domain/target sizes %s differ from the documented ones %s" % (MODE_NAME[mode], got.shape, E.shape))
            if not close(got, E, tol):
                return ("action", "mode %s: dense action differs from the documented definition (max diff %.3g)"
                        % (MODE_NAME[mode], float(np.abs(got - E).max())))
    return None


def check_decl(ift, op, decl):
    """the declared domain/target consist of the documented sub-domains (kind, shape, distances, identity)"""
    for side, entries in decl.items():
        dom = op.target if side == "target" else op.domain
        other = op.domain if side == "target" else op.target
        if not isinstance(dom, ift.DomainTuple):
            continue
        if len(dom) != len(entries):
            return "%s has %d sub-domains, documented: %d" % (side, len(dom), len(entries))
        for j, (d, e) in enumerate(zip(dom, entries)):
            ok = True
            if e[0] == "same":
                ok = (d == other[e[1]])
            elif e[0] == "U":
                ok = isinstance(d, ift.UnstructuredDomain) and list(d.shape) == list(e[1])
            elif e[0] == "RG":
                ok = isinstance(d, ift.RGSpace) and list(d.shape) == list(e[1])
                if ok and e[2] is not None:
                    ok = bool(np.allclose(np.array(d.distances, dtype=float), np.array(e[2], dtype=float), rtol=1e-12, atol=0))
                if ok and e[3] is not None:
                    ok = bool(d.harmonic) == bool(e[3])
            elif e[0] == "cls":
                ok = type(d).__name__ == e[1] and (e[2] is None or list(d.shape) == list(e[2]))
            if not ok:
                return "%s sub-domain %d is %r, documented: %r" % (side, j, d, e)
    return None


def foreign_rejected(ift, op):
    """OBS: _check_input rejects a field living on a foreign domain."""
    try:
        d = op.domain
        foreign = ift.DomainTuple.make(ift.UnstructuredDomain(dom_size(d) + 1))
        op.apply(ift.Field.from_raw(foreign, np.zeros(foreign.shape)), 1)
    except Exception:
        return True
    return False


# ---------------------------------------------------------------------------------------------
# special_add_at
# ---------------------------------------------------------------------------------------------
def gen_saa(rng):
    sz1, na, nb, sz3 = int(rng.integers(1, 4)), int(rng.integers(1, 5)), int(rng.integers(0, 6)), int(rng.integers(1, 4))
    cplx = bool(rng.integers(2))
    index = [int(a) for a in rng.integers(0, na, size=nb)]

    def arr(n):
        v = rng.integers(-4, 5, size=n).astype(float)
        if cplx:
            v = v + 1j * rng.integers(-4, 5, size=n)
        return v
    a, b = arr(sz1 * na * sz3), arr(sz1 * nb * sz3)
    # a has shape pre + (na,) + post with prod(pre) = sz1, prod(post) = sz3; choose a factorisation
    pre = [sz1] if rng.integers(2) else ([sz1, 1] if rng.integers(2) else [1, sz1])
    post = [sz3] if rng.integers(2) else [1, sz3]
    return {"sz1": sz1, "na": na, "nb": nb, "sz3": sz3, "cplx": cplx, "index": index, "pre": pre, "post": post,
            "a": O.jc(a), "b": O.jc(b)}


def run_saa(c):
    from nifty.cl.any_array import AnyArray
    from nifty.cl.utilities import special_add_at
    a = np.array(O.uc(c["a"]), dtype=complex)
    b = np.array(O.uc(c["b"]), dtype=complex)
    if not c["cplx"]:
        a, b = a.real.copy(), b.real.copy()
    a = a.reshape(c["pre"] + [c["na"]] + c["post"])
    b = b.reshape(c["pre"] + [c["nb"]] + c["post"])
    res = special_add_at(AnyArray(a.copy()), len(c["pre"]), AnyArray(np.array(c["index"], dtype=np.int64)), AnyArray(b))
    res = np.asarray(res.asnumpy() if hasattr(res, "asnumpy") else res)
    # scatter-add reference (np.add.at)
    ref = a.copy()
    idx = (slice(None),) * len(c["pre"]) + (np.array(c["index"], dtype=np.int64),)
    np.add.at(ref, idx, b)
    return res, ref, a.shape


# ---------------------------------------------------------------------------------------------
HEADER = ("From Coq Require Import List Arith ZArith QArith Qcanon Bool. Import ListNotations.\n"
          "Require Import NV.C02.Model NV.C02.Exec.\nLocal Open Scope nat_scope.\n")


def eval_cases_local(d, name, header, checks, timeout=900, shard=200, jobs=5):
    """like common.eval_cases, but in a per-process scratch directory"""
    os.makedirs(d, exist_ok=True)
    files = []
    for s in range(0, len(checks), shard):
        path = os.path.join(d, "cases_%s_%d.v" % (name, s // shard))
        with open(path, "w") as f:
            f.write(header + "\n")
            for i, c in enumerate(checks[s:s + shard]):
                f.write("Goal True. let b := eval vm_compute in (%s) in\n  match b with true => idtac | _ => idtac \"@@BAD %d\" end. Abort.\n" % (c, s + i))
            f.write('Goal True. idtac "@@DONE %d". Abort.\n' % (s // shard))
        files.append(path)
    bad = []
    pending, running = list(files), []
    while pending or running:
        while pending and len(running) < jobs:
            p = pending.pop(0)
            cmd = ["timeout", str(timeout), "coqc", "-R", C.COQ, "NV", "-w", "none", p]
            running.append((p, subprocess.Popen(cmd, cwd=d, stdout=subprocess.PIPE, stderr=subprocess.STDOUT, text=True)))
        p, pr = running.pop(0)
        out, _ = pr.communicate()
        if pr.returncode != 0 or "@@DONE" not in out:
            raise C.MachineryError("cases file %s failed to evaluate:\n%s" % (p, out[-3000:]))
        bad += [int(x) for x in re.findall(r"@@BAD (\d+)", out)]
    return sorted(bad)


def exact_dyadic(M):
    M = np.asarray(M)
    return bool(np.all(np.isfinite(M)))


class C02(C.Check):
    prop = "C02"
    coq_dir = "C02"
    trusted_base = [
        "Coq 8.16.1 kernel; vm_compute for the correspondence evaluation over Qc",
        "hand model coq/C02/Model.v: one sparse-triplet spec per modelled class written from the documented definition and the quoted source lines (tie = exact correspondence of the dense matrices in every advertised mode, of domain/target shapes, on generated configurations)",
        "harness glue harness/props/c02_ops.py translating constructor arguments into Coq terms (None/int/tuple `spaces`, scalar pixel volumes = product of the RGSpace distances)",
        "float64 arithmetic of the implementation is exact on the generated inputs (integer / dyadic weights, dyadic distances and sampling positions, dyadic n_old/n_new)",
        "NumPy indexing / scipy.sparse / np.einsum / np.tensordot / np.fft.fftshift semantics as used by the implementation (compared as a whole through the dense matrices)",
        "PowerDistributor: the pindex of the PowerSpace enters the spec as a parameter (its definition is C08/C10)",
    ]
    assumptions = [
        "exact ring arithmetic in the theorems (commutative ring with Leibniz equality: Z, Qc, R); rounding of weights that are not dyadic is outside the model",
        "fields are C-order flattened; MultiFields are flattened with the keys in sorted order",
        "SplitOperator: sliced sub-domains are one-dimensional, at most one boolean-mask/index-list entry per key and none together with an integer entry (NumPy pairs several advanced indices; see notes/C02.md)",
        "MatrixProductOperator with a non-contiguous or permuted `spaces` tuple, harmonic transforms (C09), einsum, sandwich/block-diagonal/adapters (C01), library-internal operators are exercised by the direct oracle only (listed as unmodelled in the evidence)",
        "device placement (_device_preparation) is not modelled; host arrays only",
    ]

    def __init__(self):
        self.obs = []

    # -- case generation ----------------------------------------------------------------------
    def plan(self, ctx):
        per_m = 26 if ctx.quick else 150
        per_o = 10 if ctx.quick else 60
        out = []
        for kl in O.MODELLED:
            out += [(kl, per_m)]
        for kl in O.ORACLE_ONLY:
            out += [(kl, getattr(kl, "quick_n", per_o) if ctx.quick else getattr(kl, "thorough_n", per_o))]
        return out

    def coq_case(self, kl, o):
        cq = kl.coq(o["cfg"])
        if cq is None or "build_error" in o:
            return None
        if any(p.err for p in o["probe"].values()):
            return None
        rform = cq.get("rform", False)
        impl = []
        for mode, p in o["probe"].items():
            if rform:
                R = rmat_of(kl, p)
            else:
                if p.r is None:
                    return None
                if np.abs(p.r.imag).max(initial=0.0) != 0.0:
                    R = None
                else:
                    R = p.r.real
            if R is None or not exact_dyadic(R):
                impl.append("(%d, [(0, 0, q 1 1); (0, 0, q 1 1)])" % mode)   # cannot match any spec: flagged
                continue
            impl.append("(%d, %s)" % (mode, O.ctrip(R)))
        m, n = (2 * o["m"], 2 * o["n"]) if rform else (o["m"], o["n"])
        inv = "(Some %s)" % cq["inv"] if "inv" in cq else "None"
        term = "case_ok %s %s %d %d %s" % (cq["spec"], inv, m, n, O.cl(impl))
        if "unstructured" in cq and isinstance(o["tgt_shapes"], list):
            op = o.get("_op")
            flags = [type(d).__name__ == "UnstructuredDomain" and type(s).__name__ != "UnstructuredDomain"
                     for d, s in zip(op.target, op.domain)]
            was_u = [type(s).__name__ == "UnstructuredDomain" for s in op.domain]
            # sub-domains that were structured: must be unstructured afterwards exactly where the formula says
            term += " && forallb (fun '(w, (a, b)) => orb w (Bool.eqb a b)) (combine %s (combine %s %s))" % (
                O.cbl(was_u), cq["unstructured"], O.cbl(flags))
        if "extra" in cq:
            term += " && " + cq["extra"]
        if "tgt" in cq and isinstance(o["tgt_shapes"], list):
            term += " && shapes_eqb %s %s" % (cq["tgt"], O.cshs(o["tgt_shapes"]))
        if "dom" in cq and isinstance(o["dom_shapes"], list):
            term += " && shapes_eqb %s %s" % (cq["dom"], O.cshs(o["dom_shapes"]))
        if "tgt_keys" in cq and isinstance(o["tgt_shapes"], dict):
            for k, t in zip(sorted(o["tgt_shapes"]), cq["tgt_keys"]):
                term += " && shapes_eqb %s %s" % (t, O.cshs(o["tgt_shapes"][k]))
        return term

    def correspondence(self, ctx, res):
        import nifty.cl as ift
        self.ift = ift
        self.obs = []
        t_start = time.time()
        todo = []
        for c in ctx.corpus():
            if c.get("cls") in O.BY_NAME:
                todo.append((O.BY_NAME[c["cls"]], c["cfg"]))
        for ci, (kl, cnt) in enumerate(self.plan(ctx)):
            rng = ctx.rng(1000 + ci)
            for _ in range(cnt):
                todo.append((kl, kl.gen(rng)))
        checks, idx = [], []
        per_class = {}
        rej = [0, 0]
        for kl, cfg in todo:
            cfg = json.loads(json.dumps(cfg))
            o, op = observe(ift, kl, cfg)
            o["_op"] = op
            self.obs.append((kl, o))
            st = per_class.setdefault(kl.name, {"cases": 0, "modelled": bool(kl.modelled), "compared_in_coq": 0, "nontrivial": set(), "modes": set()})
            st["cases"] += 1
            if kl.nontrivial(cfg):
                st["nontrivial"].add(json.dumps(cfg, sort_keys=True))
            if op is not None:
                st["modes"].add(int(o["cap"]))
                rej[0] += 1
                rej[1] += int(foreign_rejected(ift, op))
            if kl.modelled:
                t = self.coq_case(kl, o)
                if t is not None:
                    checks.append(t)
                    idx.append(len(self.obs) - 1)
                    st["compared_in_coq"] += 1
        # special_add_at
        rng = ctx.rng(7)
        self.saa = [gen_saa(rng) for _ in range(40 if ctx.quick else 300)]
        saa_checks = []
        self.saa_fail = []
        for c in self.saa:
            got, ref, shp = run_saa(c)
            if not np.array_equal(got, ref):
                self.saa_fail.append(c)
            flat = got.reshape(-1)
            if c["cplx"]:
                lit = lambda v: O.cl([O.cqp(a) for a in v])
                saa_checks.append("saa_c_ok %d %d %d %d %s %s %s %s" % (c["sz1"], c["na"], c["nb"], c["sz3"], O.cnl(c["index"]),
                                  lit(O.uc(c["a"])), lit(O.uc(c["b"])), lit(flat)))
            else:
                lit = lambda v: O.cl([O.cq(complex(a).real) for a in v])
                saa_checks.append("saa_ok %d %d %d %d %s %s %s %s" % (c["sz1"], c["na"], c["nb"], c["sz3"], O.cnl(c["index"]),
                                  lit(O.uc(c["a"])), lit(O.uc(c["b"])), lit(flat)))
        t_impl = time.time()
        wd = os.path.join(ctx.run_dir(), "w%d" % os.getpid())
        bad = eval_cases_local(wd, "corr", HEADER, checks)
        bad_saa = eval_cases_local(wd, "saa", HEADER, saa_checks)
        if not bad and not bad_saa:
            shutil.rmtree(wd, ignore_errors=True)
        res.notes.append("phases: implementation runs %.1fs, coqc evaluation %.1fs" % (t_impl - t_start, time.time() - t_impl))
        hints = []
        for b in bad[:5]:
            kl, o = self.obs[idx[b]]
            res.add_broken("correspondence", "%s vs coq/C02/Model.v" % kl.name, {"cls": kl.name, "cfg": o["cfg"]})
            hints.append(idx[b])
        for b in bad_saa[:3]:
            res.add_broken("correspondence", "utilities._special_add_at vs coq/C02/Model.v", {"case": self.saa[b]})
        distinct = sum(len(v["nontrivial"]) for v in per_class.values() if v["modelled"])
        res.coverage.update({
            "evaluations": len(self.obs) + len(self.saa),
            "modelled_cases_compared_in_coq": len(checks),
            "special_add_at_cases": len(saa_checks),
            "distinct_nontrivial": distinct,
            "rule": "per class: random DomainTuples of 1-3 (4 for transpose/squeeze) sub-domains (RGSpace with dyadic distances / UnstructuredDomain, 1-2 axes, lengths 1-5) and random constructor arguments (spaces given as None/int/tuple, powers, index lists with repeats, masks, slices with negative bounds and steps, central padding, complex weights); non-trivial = the class's own predicate (e.g. a real permutation, a real selection); distinct by JSON of the configuration",
            "samples": [{"cls": kl.name, "cfg": o["cfg"]} for kl, o in self.obs[:3]],
            "input_distribution": {k: {"cases": v["cases"], "modelled": v["modelled"], "compared_in_coq": v["compared_in_coq"],
                                       "distinct_nontrivial": len(v["nontrivial"]), "capabilities_seen": sorted(v["modes"])}
                                   for k, v in per_class.items()},
            "classes_modelled": [k.name for k in O.MODELLED],
            "classes_oracle_only": [k.name for k in O.ORACLE_ONLY],
            "foreign_domain_rejected": "%d of %d operators reject a field on a foreign domain (observed, not required)" % (rej[1], rej[0]),
            "disagreements": len(bad) + len(bad_saa),
        })
        return hints

    # -- the direct oracle --------------------------------------------------------------------
    def signature(self, kl, br, cfg):
        sig = {"cls": kl.name, "branch": br}
        if kl.name == "MatrixProductOperator":
            sig["sparse"] = bool(cfg.get("sparse"))
        return sig

    def oracle(self, ctx, res, hints, budget):
        ift = self.ift
        rng = ctx.rng(99)
        n = 0
        seen = set()
        for kl, o in self.obs:
            f = direct(ift, kl, o, o.get("_op"), rng)
            n += 1
            if f:
                sig = self.signature(kl, f[0], o["cfg"])
                key = json.dumps(sig, sort_keys=True)
                if key in seen:
                    continue
                seen.add(key)
                res.add_failing(sig, "%s: %s" % (kl.name, f[1]), {"cls": kl.name, "cfg": o["cfg"]})
        for c in self.saa_fail[:1]:
            res.add_failing({"cls": "special_add_at", "branch": "scatter-add"}, "utilities.special_add_at differs from scatter-add (np.add.at)", {"cls": "special_add_at", "cfg": c})
        if budget > 1 and not res.failing:
            for ci, kl in enumerate(O.ALL):
                r2 = ctx.rng(5000 + ci)
                for _ in range(120):
                    cfg = json.loads(json.dumps(kl.gen(r2)))
                    o, op = observe(ift, kl, cfg)
                    n += 1
                    f = direct(ift, kl, o, op, rng)
                    if f:
                        res.add_failing(self.signature(kl, f[0], cfg), "%s: %s" % (kl.name, f[1]), {"cls": kl.name, "cfg": cfg})
                        break
                if res.failing:
                    break
        res.coverage["impl_property_evaluations"] = n

    def replay(self, ctx, rp):
        import nifty.cl as ift
        i = rp["input"]
        if i["cls"] == "special_add_at":
            got, ref, _ = run_saa(i["cfg"])
            return not np.array_equal(got, ref)
        kl = O.BY_NAME[i["cls"]]
        o, op = observe(ift, kl, i["cfg"])
        return direct(ift, kl, o, op, ctx.rng(99)) is not None


CHECK = C02()
