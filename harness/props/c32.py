"""C32 -- HMC and NUTS: reversible volume-preserving dynamics, invariant target.

Tie: translator tr/c32_leapfrog.py (leapfrog_step, flip_momentum, is_euclidean_uturn,
total_energy_of_qp, kinetic energy and its gradient) + hand model coq/C32/Model.v (accept rule, bit
functions / checkpoint bookkeeping, progressive sampling) + correspondence: the real functions are run
on generated polynomial potentials with dyadic parameters (eager control flow, observation hooks
installed on the *module attributes* of nifty.re.hmc for the duration of a call) and compared with the
model evaluated in exact rational arithmetic inside coqc.
Direct oracle (implementation only): numerical reversibility, autodiff Jacobian determinant,
detailed balance of the HMC step from its own transition probabilities, finite chains on a target
with a logarithmic barrier, exact enumeration of the NUTS transition kernel on an orbit
(invariance), and -- thorough tier only, labelled STATISTICAL -- long-chain moments."""
import json
import math
import os
import warnings
from fractions import Fraction
from functools import partial

import numpy as np

from .. import common as C

TOL = Fraction(1, 10 ** 9)        # model (exact) vs float64 implementation, relative to max(1,|x|)
HEADER = ("From Coq Require Import ZArith NArith QArith List Bool.\nImport ListNotations.\n"
          "Require Import NV.C32.Model NV.C32.Gen_Leapfrog NV.C32.Exec.\nLocal Open Scope Q_scope.\n")


# --------------------------------------------------------------------------------------------------
# potentials
# --------------------------------------------------------------------------------------------------

def dy(rng, lo, hi, bits):
    """dyadic rational in [lo, hi] with `bits` fractional bits, as float (exact)."""
    s = 1 << bits
    return int(rng.integers(int(lo * s), int(hi * s) + 1)) / s


def gen_spec(rng, d=None, quartic=None, bar=None):
    d = d or int(rng.integers(1, 4))
    A = [[0.0] * d for _ in range(d)]
    for i in range(d):
        A[i][i] = dy(rng, 0.5, 2.0, 2)
        for j in range(i):
            A[i][j] = A[j][i] = dy(rng, -0.25, 0.25, 3)
    b = [dy(rng, -0.5, 0.5, 2) for _ in range(d)]
    if quartic is None:
        quartic = bool(rng.integers(0, 2))
    c = [dy(rng, 0.0, 1.0, 2) if quartic else 0.0 for _ in range(d)]
    return {"d": d, "A": A, "b": b, "c": c, "bar": bar}


def make_potential(spec):
    import jax.numpy as jnp
    A = jnp.array(spec["A"], dtype=jnp.float64)
    b = jnp.array(spec["b"], dtype=jnp.float64)
    c = jnp.array(spec["c"], dtype=jnp.float64)
    bar = spec.get("bar")

    def V(q):
        v = b @ q + 0.5 * (q @ (A @ q)) + 0.25 * jnp.sum(c * q ** 4)
        if bar is not None:
            v = jnp.where(q[0] > bar[0], jnp.nan if bar[1] == "nan" else jnp.inf, v)
        return v
    return V


def np_energy(spec, imm, q, p):
    """independent NumPy evaluation of the Hamiltonian (oracle side)."""
    q, p = np.asarray(q, float), np.asarray(p, float)
    if not (np.all(np.isfinite(q)) and np.all(np.isfinite(p))):
        return math.nan
    bar = spec.get("bar")
    if bar is not None and q[0] > bar[0]:
        return math.nan if bar[1] == "nan" else math.inf
    A, b, c = np.array(spec["A"]), np.array(spec["b"]), np.array(spec["c"])
    return float(b @ q + 0.5 * q @ A @ q + 0.25 * np.sum(c * q ** 4) + 0.5 * np.sum(np.asarray(imm) * p ** 2))


def cpot(spec):
    bar = spec.get("bar")
    cb = "None" if bar is None else "(Some (%s, %s))" % (C.cq(bar[0]), C.cbool(bar[1] == "nan"))
    return "(mkPot %d %s %s %s %s)" % (
        spec["d"], C.clist([C.clist([C.cq(x) for x in r]) for r in spec["A"]]),
        C.clist([C.cq(x) for x in spec["b"]]), C.clist([C.cq(x) for x in spec["c"]]), cb)


def cvec(v):
    return C.clist([C.cq(float(x)) for x in np.asarray(v, dtype=float).ravel()])


def finite(*arrs):
    return all(np.all(np.isfinite(np.asarray(a, dtype=float))) for a in arrs)


# --------------------------------------------------------------------------------------------------
# the implementation, with observation hooks
# --------------------------------------------------------------------------------------------------

def _setup():
    import jax
    jax.config.update("jax_enable_x64", True)
    warnings.simplefilter("ignore", DeprecationWarning)


class Eager:
    """nifty.re.lax._DISABLE_CONTROL_FLOW_PRIM = True for the duration (NIFTy's own switch: the
    Python fall-backs of cond / while_loop / fori_loop), restored afterwards."""

    def __init__(self, on=True):
        self.on = on

    def __enter__(self):
        from nifty.re import lax as nlax
        self.old = nlax._DISABLE_CONTROL_FLOW_PRIM
        nlax._DISABLE_CONTROL_FLOW_PRIM = self.on

    def __exit__(self, *a):
        from nifty.re import lax as nlax
        nlax._DISABLE_CONTROL_FLOW_PRIM = self.old


class RandomProxy:
    """Stands in for the `random` name inside nifty.re.hmc: records every Bernoulli probability and
    (optionally) forces the outcomes from a script; everything else is jax.random."""

    def __init__(self, script=None):
        import jax
        self.real = jax.random
        self.script = script
        self.log = []            # (context, probability, outcome)
        self.ctx = "?"

    def __getattr__(self, name):
        return getattr(self.real, name)

    def bernoulli(self, key, p=0.5, shape=None):
        import jax.numpy as jnp
        pf = float(p)
        if self.script is None:
            out = bool(self.real.bernoulli(key, p))
        else:
            i = len(self.log)
            out = bool(self.script[i]) if i < len(self.script) else False
        self.log.append((self.ctx, pf, out))
        return jnp.asarray(out)


class Hooks:
    """Temporarily replaces module attributes of nifty.re.hmc by recording wrappers."""

    def __init__(self, script=None, record=True):
        self.proxy = RandomProxy(script)
        self.builds = []         # one entry per iterative_build_tree call
        self.uturns = []
        self.merges = []
        self.record = record
        self.oob = []
        self.seq = []            # ("build", index into builds) / ("merge",) in call order

    def __enter__(self):
        from nifty.re import hmc
        self.hmc = hmc
        self.saved = {k: getattr(hmc, k) for k in
                      ("random", "tree_index_update", "tree_index_get", "iterative_build_tree",
                       "is_euclidean_uturn", "add_single_qp_to_tree", "merge_trees")}
        s = self.saved
        hk = self

        def upd(x, idx, y):
            if hk.builds:
                hk.builds[-1]["events"].append(("w", int(idx)))
                n0 = int(np.shape(x.position)[0])
                if not 0 <= int(idx) < n0:
                    hk.oob.append(("w", int(idx), n0))
            return s["tree_index_update"](x, idx, y)

        def get(x, idx):
            if hk.builds:
                hk.builds[-1]["events"].append(("r", int(idx)))
                n0 = int(np.shape(x.position)[0])
                if not 0 <= int(idx) < n0:
                    hk.oob.append(("r", int(idx), n0))
            return s["tree_index_get"](x, idx)

        def build(key, initial_tree, step_size, go_right, stepper, *a, **kw):
            rec = {"events": [], "depth": int(initial_tree.depth), "steps": 0, "adds": [], "go_right": bool(go_right)}
            hk.builds.append(rec)
            hk.seq.append(("build", len(hk.builds) - 1))

            def counting(*sa):
                rec["steps"] += 1
                return stepper(*sa)
            t = s["iterative_build_tree"](key, initial_tree, step_size, go_right, counting, *a, **kw)
            rec["logweight"] = float(t.logweight)
            rec["turning"] = bool(t.turning)
            rec["diverging"] = bool(t.diverging)
            rec["out_depth"] = int(t.depth)
            return t

        def uturn(l, r):
            out = s["is_euclidean_uturn"](l, r)
            if hk.record:
                hk.uturns.append((np.asarray(l.position), np.asarray(l.momentum), np.asarray(r.position),
                                  np.asarray(r.momentum), bool(out)))
            return out

        def add(key, tree, qp, go_right, potential_energy, kinetic_energy, inverse_mass_matrix, **kw):
            hk.proxy.ctx = "add"
            if hk.record and hk.builds:
                ne = -float(hmc.total_energy_of_qp(qp, potential_energy, partial(kinetic_energy, inverse_mass_matrix)))
                hk.builds[-1]["adds"].append({"old_lw": float(tree.logweight), "neg_energy": ne})
            out = s["add_single_qp_to_tree"](key, tree, qp, go_right, potential_energy, kinetic_energy,
                                              inverse_mass_matrix, **kw)
            hk.proxy.ctx = "?"
            return out

        def merge(key, cur, new, go_right, bias_transition):
            hk.seq.append(("merge",))
            hk.proxy.ctx = "merge"
            n0 = len(hk.proxy.log)
            out = s["merge_trees"](key, cur, new, go_right, bias_transition)
            if hk.record:
                hk.merges.append({"bias": bool(bias_transition), "cur": float(cur.logweight), "new": float(new.logweight),
                                  "p": hk.proxy.log[n0][1], "lw": float(out.logweight)})
            hk.proxy.ctx = "?"
            return out

        hmc.random = self.proxy
        hmc.tree_index_update, hmc.tree_index_get = upd, get
        hmc.iterative_build_tree = build
        hmc.is_euclidean_uturn = uturn
        hmc.add_single_qp_to_tree = add
        hmc.merge_trees = merge
        return self

    def __exit__(self, *a):
        for k, v in self.saved.items():
            setattr(self.hmc, k, v)


def make_sampler(spec, imm, eps, kind="hmc", num_steps=1, max_tree_depth=3, maxd=math.inf, bias=True):
    """The stepper / kinetic energy exactly as hmc_oo._Sampler.__init__ assembles them."""
    import jax.numpy as jnp
    import nifty.re as jft
    V = make_potential(spec)
    proto = jnp.zeros(spec["d"])
    if kind == "hmc":
        s = jft.HMCChain(potential_energy=V, inverse_mass_matrix=jnp.array(imm, dtype=jnp.float64), position_proto=proto,
                         num_steps=num_steps, step_size=float(eps), max_energy_difference=maxd)
    else:
        s = jft.NUTSChain(potential_energy=V, inverse_mass_matrix=jnp.array(imm, dtype=jnp.float64), position_proto=proto,
                          step_size=float(eps), max_tree_depth=max_tree_depth, bias_transition=bias,
                          max_energy_difference=maxd)
    return s, V


def run_leapfrog(spec, imm, eps, q, p, n):
    import jax.numpy as jnp
    from nifty.re import hmc
    s, V = make_sampler(spec, imm, eps)
    z = hmc.QP(position=jnp.array(q, dtype=jnp.float64), momentum=jnp.array(p, dtype=jnp.float64))
    for _ in range(n):
        z = s.stepper(float(eps), s.inverse_mass_matrix, z)
    return np.asarray(z.position), np.asarray(z.momentum)


def run_hmc_step(spec, imm, eps, q, p, n, seed, maxd, eager=True):
    """generate_hmc_acc_rej once; returns observations incl. the recorded transition probability."""
    import jax
    import jax.numpy as jnp
    from nifty.re import hmc
    s, V = make_sampler(spec, imm, eps, num_steps=n, maxd=maxd)
    key = jax.random.PRNGKey(seed)
    z = hmc.QP(position=jnp.array(q, dtype=jnp.float64), momentum=jnp.array(p, dtype=jnp.float64))
    u = float(jax.random.uniform(key, (), jnp.float64))
    out = {"u": u}
    kw = dict(key=key, initial_qp=z, potential_energy=V, kinetic_energy=s.kinetic_energy,
              inverse_mass_matrix=s.inverse_mass_matrix, stepper=s.stepper, num_steps=n, step_size=float(eps),
              max_energy_difference=maxd)
    if eager:
        with Eager(True), Hooks() as hk:
            r = hmc.generate_hmc_acc_rej(**kw)
        out["prob"] = hk.proxy.log[0][1]
    else:
        with Eager(False):
            r = hmc.generate_hmc_acc_rej(**kw)
    out.update(acc=bool(r.accepted), div=bool(r.diverging),
               aq=np.asarray(r.accepted_qp.position), ap=np.asarray(r.accepted_qp.momentum),
               rq=np.asarray(r.rejected_qp.position), rp=np.asarray(r.rejected_qp.momentum))
    return out


def run_nuts(spec, imm, eps, q, p, seed, depth, bias=True, script=None, record=True, maxd=math.inf):
    import jax
    import jax.numpy as jnp
    from nifty.re import hmc
    s, V = make_sampler(spec, imm, eps, kind="nuts", max_tree_depth=depth, bias=bias, maxd=maxd)
    z = hmc.QP(position=jnp.array(q, dtype=jnp.float64), momentum=jnp.array(p, dtype=jnp.float64))
    with Eager(True), Hooks(script=script, record=record) as hk:
        t = hmc.generate_nuts_tree(initial_qp=z, key=jax.random.PRNGKey(seed), step_size=float(eps), max_tree_depth=depth,
                                   stepper=s.stepper, potential_energy=V, kinetic_energy=s.kinetic_energy,
                                   inverse_mass_matrix=s.inverse_mass_matrix, bias_transition=bias,
                                   max_energy_difference=maxd)
    return t, hk



# --------------------------------------------------------------------------------------------------
# momentum refresh on pytree positions
# --------------------------------------------------------------------------------------------------

MOMENTUM_REF = """
normal = random_like(key=key, primals=mass_matrix_sqrt, rng=random.normal)
return tree_util.tree_map(jnp.multiply, mass_matrix_sqrt, normal)
"""
RANDOM_LIKE_NEEDLES = ("subkeys = tree_unflatten(struct, random.split(key, struct.num_leaves))",
                       "return tree_map(draw, subkeys, primals)")


def momentum_anchor(repo):
    """sample_momentum_from_diagonal / random_like must be the statements quoted in coq/C32/Model.v."""
    import ast
    tree = ast.parse(open(os.path.join(repo, "nifty/re/hmc.py")).read())
    fs = [n for n in tree.body if isinstance(n, ast.FunctionDef) and n.name == "sample_momentum_from_diagonal"]
    if len(fs) != 1:
        return "sample_momentum_from_diagonal not found exactly once"
    body = [x for x in fs[0].body if not (isinstance(x, ast.Expr) and isinstance(x.value, ast.Constant))]
    if [ast.unparse(x) for x in body] != [ast.unparse(x) for x in ast.parse("def f():" + MOMENTUM_REF.replace(chr(10), chr(10) + "    ")).body[0].body]:
        return "sample_momentum_from_diagonal is not the code modelled in coq/C32/Model.v (leaf_keys)"
    t2 = ast.parse(open(os.path.join(repo, "nifty/re/tree_math/forest_math.py")).read())
    fs = [n for n in t2.body if isinstance(n, ast.FunctionDef) and n.name == "random_like"]
    if len(fs) != 1:
        return "random_like not found exactly once"
    txt = [ast.unparse(x) for x in fs[0].body]
    for nd in RANDOM_LIKE_NEEDLES:
        if nd not in txt:
            return "random_like: statement `%s` not found (per-leaf key split)" % nd
    return None


def momentum_trees():
    """mass_matrix_sqrt pytrees (as nested Python structures of shapes/values) with several leaves of
    equal shape and dtype."""
    return [
        {"name": "dict2", "tree": {"a": [1.0, 1.0], "b": [1.0, 1.0]}},
        {"name": "dict3", "tree": {"a": [0.5, 2.0, 1.0], "b": [0.5, 2.0, 1.0], "c": [1.0, 1.0, 1.0]}},
        {"name": "nested", "tree": {"x": {"u": [1.0, 2.0], "v": [1.0, 2.0]}, "y": [1.0, 2.0], "z": 1.0}},
        {"name": "tuple", "tree": ([[1.0, 1.0], [1.0, 1.0]], [[1.0, 1.0], [1.0, 1.0]], [2.0])},
        {"name": "vector", "tree": {"a": [1.0, 0.5], "b": [1.0, 0.5]}, "vector": True},
        {"name": "single", "tree": [1.0, 2.0, 0.5]},
    ]


def _to_jax_tree(t, vector=False):
    import jax
    import jax.numpy as jnp
    import nifty.re as jft
    conv = lambda x: jnp.asarray(x, dtype=jnp.float64)
    tree = jax.tree_util.tree_map(conv, t, is_leaf=lambda x: isinstance(x, (int, float, list)))
    return jft.Vector(tree) if vector else tree


def observe_momentum(c):
    """which sub-key (index into random.split(key, n_leaves); -1 = the key itself; -2 = none) reproduces each
    leaf of the refreshed momentum bit for bit"""
    import jax
    import jax.numpy as jnp
    from nifty.re import hmc
    key = jax.random.PRNGKey(int(c["seed"]))
    ms = _to_jax_tree(c["tree"], c.get("vector", False))
    mom = hmc.sample_momentum_from_diagonal(key=key, mass_matrix_sqrt=ms)
    lm, ls = jax.tree_util.tree_leaves(mom), jax.tree_util.tree_leaves(ms)
    n = len(ls)
    subkeys = jax.random.split(key, n)
    idx = []
    for j in range(n):
        got = np.asarray(lm[j])
        found = -2
        for cand in list(range(n)) + [-1]:
            kk = key if cand == -1 else subkeys[cand]
            want = np.asarray(ls[j] * jax.random.normal(kk, jnp.shape(ls[j]), dtype=ls[j].dtype))
            if got.shape == want.shape and np.array_equal(got, want):
                found = cand
                break
        idx.append(found)
    return {"n": n, "idx": idx, "mom": [np.asarray(x) for x in lm], "sqrt": [np.asarray(x) for x in ls]}


def _direct_momentum(c):
    o = observe_momentum(c)
    # (1) no two leaves may receive bit-identical standard-normal draws
    z = [m / sq for m, sq in zip(o["mom"], o["sqrt"])]
    for i in range(o["n"]):
        for j in range(i + 1, o["n"]):
            if z[i].shape == z[j].shape and z[i].size > 0 and np.array_equal(z[i], z[j]):
                return ("momentum-refresh-correlated", "leaves %d and %d of the refreshed momentum (pytree `%s`) carry bit-identical normal draws: the refresh is not N(0, M)" % (i, j, c["name"]))
    # (2) end to end: flat potential, one leapfrog step, always accepted: the displacement of the chain is
    #     step_size * M^-1 p, so equal-shaped leaves with equal mass must not move identically
    if isinstance(c["tree"], dict):
        import jax
        import jax.numpy as jnp
        import nifty.re as jft
        pos0 = jft.Vector(jax.tree_util.tree_map(jnp.zeros_like, _to_jax_tree(c["tree"])))
        V = lambda q: 0.0 * jft.vdot(q, q)
        for mk in ("hmc", "nuts"):
            if mk == "hmc":
                smp = jft.HMCChain(potential_energy=V, inverse_mass_matrix=1.0, position_proto=pos0, num_steps=1, step_size=0.25)
            else:
                smp = jft.NUTSChain(potential_energy=V, inverse_mass_matrix=1.0, position_proto=pos0, step_size=0.25, max_tree_depth=1)
            with Eager(False):
                chain, _ = smp.generate_n_samples(int(c["seed"]), pos0, num_samples=3)
            lv = [np.asarray(x) for x in jax.tree_util.tree_leaves(chain.samples)]
            for i in range(len(lv)):
                for j in range(i + 1, len(lv)):
                    if lv[i].shape == lv[j].shape and lv[i].size > 0 and np.any(lv[i] != 0) and np.array_equal(lv[i], lv[j]):
                        return ("momentum-refresh-correlated", "%s chain (unit mass) on a flat potential moves leaves %d and %d of `%s` identically in every sample: their momenta are perfectly correlated" % (
                            mk.upper(), i, j, c["name"]))
    return None


# --------------------------------------------------------------------------------------------------
# chains continued from the returned core state
# --------------------------------------------------------------------------------------------------

def resume_chain_cases(ctx):
    out = []
    for smp in ("hmc", "nuts"):
        for (n, k) in ([(3, 3)] if ctx.quick else [(3, 3), (1, 4), (5, 2)]):
            out.append({"kind": "resume_chain", "sampler": smp, "n": n, "k": k, "seed": 41 + ctx.seed})
    return out


def _bits(a):
    return [int(x) for x in np.asarray(a, dtype=np.float64).ravel().view(np.int64)]


def observe_resume_chain(c):
    """one run of k*n samples, and k runs of n samples each continued from the returned core state;
    for every returned key the number of `split(key, 3)[0]` advances from the start key."""
    import jax
    import jax.numpy as jnp
    import nifty.re as jft
    A = jnp.array([[1.5, 0.25], [0.25, 0.75]])
    V = lambda q: 0.5 * q @ A @ q + jnp.sum(q ** 4) / 8.0
    proto = jnp.zeros(2)
    if c["sampler"] == "hmc":
        smp = jft.HMCChain(potential_energy=V, inverse_mass_matrix=1.0, position_proto=proto, num_steps=3, step_size=0.3)
    else:
        smp = jft.NUTSChain(potential_energy=V, inverse_mass_matrix=1.0, position_proto=proto, step_size=0.3, max_tree_depth=3)
    n, k = int(c["n"]), int(c["k"])
    key0 = jax.random.PRNGKey(int(c["seed"]))
    pos0 = jnp.array([0.5, -0.25])

    def advances(key, limit):
        kk = key0
        for j in range(limit + 1):
            if np.array_equal(np.asarray(kk), np.asarray(key)):
                return j
            kk = jax.random.split(kk, 3)[0]
        return -1
    with Eager(False):
        one, st_one = smp.generate_n_samples(key0, pos0, num_samples=n * k)
        segs, adv = [], []
        st = (key0, pos0)
        for i in range(k):
            ch, st = smp.generate_n_samples(st[0], st[1], num_samples=n)
            segs.append(np.asarray(ch.samples))
            adv.append(advances(st[0], n * k))
    return {"one": np.asarray(one.samples), "segs": segs, "adv": adv, "adv_one": advances(st_one[0], n * k),
            "final_one": np.asarray(st_one[1]), "final_seg": np.asarray(st[1])}


def resume_chain_checks(c, o):
    n, k = int(c["n"]), int(c["k"])
    enc = lambda arr: C.clist([C.clist([C.cz(b) for b in _bits(row)]) for row in arr])
    out = [("resume-chain", "resume_case %s %s" % (enc(o["one"]), C.clist([enc(sg) for sg in o["segs"]]))),
           ("resume-key", "key_case %d %d" % (n * k, max(o["adv_one"], 0) if o["adv_one"] >= 0 else 5000 - 1))]
    for i, a in enumerate(o["adv"]):
        out.append(("resume-key", "key_case %d %d" % (n * (i + 1), a if a >= 0 else 5000 - 1)))
    return out


def _direct_resume_chain(c, o=None):
    o = o or observe_resume_chain(c)
    n, k = int(c["n"]), int(c["k"])
    cat = np.concatenate(o["segs"], axis=0)
    if cat.shape != o["one"].shape or not np.array_equal(cat, o["one"]):
        bad = int(np.argmax(np.any(cat != o["one"], axis=tuple(range(1, cat.ndim))))) if cat.shape == o["one"].shape else -1
        return ("chain-resume", "%s chain: %d segments of %d samples continued from the returned core state differ from one run of %d samples (first difference at sample %d)" % (
            c["sampler"].upper(), k, n, n * k, bad))
    if not np.array_equal(o["final_one"], o["final_seg"]):
        return ("chain-resume", "%s chain: final position of the segmented run differs from the one-shot run" % c["sampler"].upper())
    for i in range(1, k):
        if np.array_equal(o["segs"][i], o["segs"][0]) and np.any(o["segs"][0] != o["segs"][0][0]):
            return ("chain-resume", "%s chain: segment %d replays segment 0 bit for bit" % (c["sampler"].upper(), i))
    return None


# --------------------------------------------------------------------------------------------------
# non-unit mass matrices: momentum variance vs. the inverse mass used by the dynamics
# --------------------------------------------------------------------------------------------------

def mass_cases(ctx):
    out = []
    forms = [("scalar", 0.25, [0.0, 0.0]), ("scalar", 4.0, [0.0, 0.0, 0.0]), ("scalar", 3.0, [0.0]),
             ("array", [0.25, 4.0, 1.0], None), ("array", [16.0, 0.0625], None), ("array", [2.0, 0.5, 3.0], None),
             ("vector", {"a": [4.0, 0.25], "b": [1.0, 16.0]}, None), ("vector", {"a": [2.0, 2.0], "b": [2.0, 2.0]}, None)]
    for i, (form, im, proto) in enumerate(forms):
        for smp in ("hmc", "nuts"):
            out.append({"kind": "mass", "form": form, "im": im, "proto": proto, "sampler": smp, "seed": 61 + i + 10 * ctx.seed})
    return out


def _mass_sampler(c, num_steps=1, step=0.25):
    import jax
    import jax.numpy as jnp
    import nifty.re as jft
    if c["form"] == "scalar":
        proto, im = jnp.asarray(c["proto"], dtype=jnp.float64), float(c["im"])
    elif c["form"] == "array":
        im = jnp.asarray(c["im"], dtype=jnp.float64)
        proto = jnp.zeros_like(im)
    else:
        im = jft.Vector({k: jnp.asarray(v, dtype=jnp.float64) for k, v in c["im"].items()})
        proto = jft.Vector(jax.tree_util.tree_map(jnp.zeros_like, im.tree))
    V = lambda q: 0.0 * jft.vdot(q, q)
    if c["sampler"] == "hmc":
        s = jft.HMCChain(potential_energy=V, inverse_mass_matrix=im, position_proto=proto, num_steps=num_steps, step_size=step)
    else:
        s = jft.NUTSChain(potential_energy=V, inverse_mass_matrix=im, position_proto=proto, step_size=step, max_tree_depth=1)
    return s, proto


def observe_mass(c):
    import jax
    s, proto = _mass_sampler(c)
    sq = np.concatenate([np.asarray(x, dtype=float).ravel() for x in jax.tree_util.tree_leaves(s.mass_matrix_sqrt)])
    im = np.concatenate([np.asarray(x, dtype=float).ravel() for x in jax.tree_util.tree_leaves(s.inverse_mass_matrix)])
    return {"sqrt": sq, "im": im}


def _direct_mass(c):
    import jax
    import jax.numpy as jnp
    o = observe_mass(c)
    if o["sqrt"].shape != o["im"].shape:
        return ("mass-inconsistent", "mass_matrix_sqrt and inverse_mass_matrix have different shapes")
    bad = np.abs(o["sqrt"] ** 2 * o["im"] - 1.0) > 1e-12
    if bad.any():
        i = int(np.argmax(bad))
        return ("mass-inconsistent", "%s (%s inverse mass %r): momentum is refreshed with standard deviation %.6g where the inverse mass used by leapfrog / kinetic energy is %.6g: variance * inverse mass = %.6g, not 1" % (
            c["sampler"].upper(), c["form"], c["im"], o["sqrt"][i], o["im"][i], o["sqrt"][i] ** 2 * o["im"][i]))
    if c["sampler"] == "hmc":
        # end to end: flat potential, one leapfrog step, always accepted: first sample = step * M^-1 p,
        # and p must be M^(1/2) z with z the normal draw of the refresh key
        s, proto = _mass_sampler(c)
        key0 = jax.random.PRNGKey(int(c["seed"]))
        with Eager(False):
            chain, _ = s.generate_n_samples(key0, proto, num_samples=1)
        kmr = jax.random.split(key0, 3)[2]
        leaves = jax.tree_util.tree_leaves(chain.samples)
        ims = jax.tree_util.tree_leaves(s.inverse_mass_matrix)
        sub = jax.random.split(kmr, len(leaves))
        for j, (x, im) in enumerate(zip(leaves, ims)):
            x0, im = np.asarray(x)[0], np.asarray(im, dtype=float)
            z = np.asarray(jax.random.normal(sub[j], jnp.shape(x0), dtype=jnp.float64))
            p = x0 / (0.25 * im)
            want = im ** -0.5 * z
            if np.max(np.abs(p - want)) > 1e-10 * max(1.0, np.max(np.abs(want))):
                return ("mass-inconsistent", "HMC chain (%s inverse mass %r) on a flat potential: the momentum behind the first move is %r, N(0, M) with the refresh key prescribes %r" % (
                    c["form"], c["im"], np.round(p, 6).tolist(), np.round(want, 6).tolist()))
    return None


# --------------------------------------------------------------------------------------------------
# both control-flow modes
# --------------------------------------------------------------------------------------------------

def _direct_modes(c):
    """NIFTy's Python fall-backs of the control-flow primitives (nifty.re.lax._DISABLE_CONTROL_FLOW_PRIM) must
    behave like the lax primitives: fori_loop with a non-zero lower bound, and a whole NUTS transition."""
    import jax
    import jax.numpy as jnp
    from nifty.re import hmc, lax as nlax
    outs = []
    for eager in (True, False):
        with Eager(eager):
            v = nlax.fori_loop(int(c["lo"]), int(c["hi"]), lambda i, a: a * 3 + i, jnp.asarray(1, dtype=jnp.int64))
            w = nlax.while_loop(lambda a: a < 50, lambda a: a * 2 + 1, jnp.asarray(1, dtype=jnp.int64))
            outs.append((int(v), int(w)))
    if outs[0] != outs[1]:
        return ("control-flow-modes", "fori_loop(%d, %d, ...) / while_loop give %r with the Python fall-back and %r with the lax primitives" % (
            c["lo"], c["hi"], outs[0], outs[1]))
    spec, imm, eps = c["spec"], c["imm"], c["eps"]
    res = []
    for eager in (True, False):
        s, V = make_sampler(spec, imm, eps, kind="nuts", max_tree_depth=int(c["depth"]), bias=True)
        z = hmc.QP(position=jnp.array(c["q"], dtype=jnp.float64), momentum=jnp.array(c["p"], dtype=jnp.float64))
        with Eager(eager):
            t = hmc.generate_nuts_tree(initial_qp=z, key=jax.random.PRNGKey(int(c["seed"])), step_size=float(eps),
                                       max_tree_depth=int(c["depth"]), stepper=s.stepper, potential_energy=V,
                                       kinetic_energy=s.kinetic_energy, inverse_mass_matrix=s.inverse_mass_matrix)
        res.append((int(t.depth), bool(t.turning), np.asarray(t.proposal_candidate.position), float(t.logweight)))
    a, b = res
    if a[0] != b[0] or a[1] != b[1] or np.max(np.abs(a[2] - b[2])) > 1e-12 or abs(a[3] - b[3]) > 1e-10 * max(1.0, abs(b[3])):
        return ("control-flow-modes", "generate_nuts_tree (max_tree_depth=%d, step %.4g): Python fall-back gives depth %d, turning %s, log-weight %.10g; lax primitives give depth %d, turning %s, log-weight %.10g" % (
            c["depth"], eps, a[0], a[1], a[3], b[0], b[1], b[3]))
    return None

# --------------------------------------------------------------------------------------------------
# case generation
# --------------------------------------------------------------------------------------------------

def gen_state(rng, d):
    return [dy(rng, -1.0, 1.0, 3) for _ in range(d)], [dy(rng, -1.5, 1.5, 3) for _ in range(d)]


def gen_common(rng, **kw):
    spec = gen_spec(rng, **kw)
    d = spec["d"]
    imm = [dy(rng, 0.5, 2.0, 2) for _ in range(d)]
    eps = [0.125, 0.25, 0.375, 0.5][int(rng.integers(0, 4))]
    q, p = gen_state(rng, d)
    return spec, imm, eps, q, p


def lf_cases(ctx):
    rng = ctx.rng(3201)
    out = []
    for i in range(60 if ctx.quick else 200):
        spec, imm, eps, q, p = gen_common(rng)
        n = int(rng.integers(1, 5 if any(spec["c"]) else 7))
        out.append({"kind": "lf", "spec": spec, "imm": imm, "eps": eps, "q": q, "p": p, "n": n})
    return out


def hmc_cases(ctx):
    rng = ctx.rng(3202)
    out = []
    for i in range(60 if ctx.quick else 200):
        bar = None
        if i % 3 == 1:
            bar = [dy(rng, 0.0, 1.0, 3), "nan"]
        elif i % 3 == 2:
            bar = [dy(rng, 0.0, 1.0, 3), "inf"]
        spec, imm, eps, q, p = gen_common(rng, bar=bar)
        if bar is not None:
            q[0] = min(q[0], bar[0] - 0.125)          # start inside the support
            p[0] = abs(p[0]) + 0.5                    # and move towards the barrier
            eps = 0.5
        n = int(rng.integers(1, 4))
        maxd = [math.inf, 1000.0, 0.5][int(rng.integers(0, 3))]
        out.append({"kind": "hmc", "spec": spec, "imm": imm, "eps": eps, "q": q, "p": p, "n": n,
                    "seed": int(rng.integers(0, 2 ** 31)), "maxd": maxd, "eager": (i % 10 != 0)})
    return out


def nuts_cases(ctx):
    rng = ctx.rng(3203)
    out = []
    for i in range(10 if ctx.quick else 30):
        spec, imm, eps, q, p = gen_common(rng)
        c = {"kind": "nuts", "spec": spec, "imm": imm, "eps": eps, "q": q, "p": p,
             "seed": int(rng.integers(0, 2 ** 31)), "depth": int(rng.integers(2, 5 if ctx.quick else 7)),
             "bias": bool(i % 2)}
        if i % 3 == 0:
            # small steps, deeper trees: sub-trees with 8 and more leaves are built before anything turns
            c["eps"] = 0.0625
            c["depth"] = 4 if ctx.quick else int(rng.integers(4, 7))
        if i % 3 == 2:
            # hard wall (potential +inf beyond q_0 = t) close to the start and a finite divergence threshold
            c["spec"] = dict(spec, bar=[q[0] + 0.25, "inf"])
            c["maxd"] = 1000.0
            c["eps"] = 0.5
        out.append(c)
    return out


def cmaxd(m):
    return "None" if math.isinf(m) else "(Some %s)" % C.cq(m)


# --------------------------------------------------------------------------------------------------

class C32(C.Check):
    prop = "C32"
    coq_dir = "C32"
    extra_targets = ["C32/Exec.vo"]
    trusted_base = [
        "Coq 8.16.1 kernel (coqc, vm_compute for the correspondence); Coquelicot / MathComp libraries; axioms: only the standard library's classical reals (+ functional extensionality inside Coquelicot) for the theorems over R, everything else closed",
        "translator tr/c32_leapfrog.py (Python ast -> Gallina, whitelist, fail closed) for leapfrog_step, flip_momentum, is_euclidean_uturn, total_energy_of_qp, kinetic_energy, kinetic_energy_gradient",
        "hand model coq/C32/Model.v of the accept rule, population_count / count_trailing_ones / checkpoint bookkeeping, progressive sampling (tied by correspondence)",
        "arrays as index functions with element-wise operations; float64 vs exact rationals compared with relative tolerance 1e-9 on short trajectories",
        "observation hooks on module attributes of nifty.re.hmc (random, tree_index_update/get, iterative_build_tree, is_euclidean_uturn, add_single_qp_to_tree, merge_trees) and NIFTy's own eager switch nifty.re.lax._DISABLE_CONTROL_FLOW_PRIM; compiled (lax) control flow compared with eager on a subset",
        "jax.random.bernoulli(key, p) == (jax.random.uniform(key, (), float64) < p) (checked at run time)",
        "dual-number evaluation of the translated step is its derivative (standard; cross-checked in dimension 1 against Coquelicot derivatives and numerically against jax.jacfwd)",
    ]
    assumptions = [
        "exact arithmetic in the theorems (ring / reals); floating-point rounding is outside",
        "the proposal of the HMC step is an involution on the (finite) state space: C32_reversible in exact arithmetic",
        "NUTS invariance itself is not proved (partial): checked by exact kernel enumeration on orbits and statistically",
    ]

    def __init__(self):
        self.obs = []
        self.cases = []

    # ---- translate
    def translate(self, ctx):
        from tr import c32_leapfrog
        try:
            text = c32_leapfrog.translate(ctx.repo)
        except c32_leapfrog.Unsupported as e:
            raise C.TranslationError(str(e))
        except (SyntaxError, OSError) as e:
            raise C.TranslationError(repr(e))
        C.write_if_changed(os.path.join(C.COQ, "C32", "Gen_Leapfrog.v"), text)
        msg = momentum_anchor(ctx.repo)
        if msg:
            raise C.TranslationError(msg)

    # ---- correspondence
    def observe(self, c):
        k = c["kind"]
        if k == "lf":
            xq, xp = run_leapfrog(c["spec"], c["imm"], c["eps"], c["q"], c["p"], c["n"])
            return {"xq": xq, "xp": xp}
        if k == "hmc":
            return run_hmc_step(c["spec"], c["imm"], c["eps"], c["q"], c["p"], c["n"], c["seed"], c["maxd"], c["eager"])
        if k == "nuts":
            t, hk = run_nuts(c["spec"], c["imm"], c["eps"], c["q"], c["p"], c["seed"], c["depth"], c["bias"],
                             maxd=float(c.get("maxd", math.inf)))
            return {"tree": t, "hk": hk}
        raise ValueError(k)

    def checks_for(self, c, o):
        """list of (label, coq bool term)"""
        k = c["kind"]
        P = cpot(c["spec"]) if "spec" in c else None
        if k == "lf":
            if not finite(o["xq"], o["xp"]):
                return [("lf-nonfinite", "false")]
            return [("lf", "lf_case %s %s %s %s %s %d %s %s %s" % (
                P, C.cq(c["eps"]), cvec(c["imm"]), cvec(c["q"]), cvec(c["p"]), c["n"], C.cq(TOL), cvec(o["xq"]), cvec(o["xp"])))]
        if k == "hmc":
            res = []
            lnu = math.log(o["u"])
            bad = not finite(o["aq"], o["ap"], o["rq"], o["rp"])
            if bad:
                return [("hmc-nonfinite", "false")]
            res.append(("hmc", "hmc_case %s %s %s %s %s %d %s %s %s %s %s %s %s %s %s" % (
                P, C.cq(c["eps"]), cvec(c["imm"]), cvec(c["q"]), cvec(c["p"]), c["n"], C.cq(lnu), cmaxd(c["maxd"]),
                C.cq(TOL), C.cbool(o["acc"]), C.cbool(o["div"]), cvec(o["aq"]), cvec(o["ap"]), cvec(o["rq"]), cvec(o["rp"]))))
            return res
        if k == "nuts":
            res = []
            hk, d = o["hk"], c["spec"]["d"]
            for b in hk.builds:
                ev = C.clist(["(%s 0 %s)" % ("Wr" if kd == "w" else "Rd", C.cz(s)) for kd, s in b["events"]])
                res.append(("ckpt", "ckpt_case %d %s" % (b["steps"] - 1, ev)))
                if b["adds"]:
                    ref = b["adds"][0]["old_lw"]
                    w0 = 1.0
                    ws = [math.exp(a["neg_energy"] - ref) for a in b["adds"]]
                    keeps = [p for (cx, p, _) in hk.proxy.log if cx == "add"]
                    b["_ws"] = ws
                    res.append(("prog", None, b, ref, w0, ws))
            for si, it in enumerate(hk.seq):
                if it[0] == "build":
                    b = hk.builds[it[1]]
                    merged = si + 1 < len(hk.seq) and hk.seq[si + 1][0] == "merge"
                    res.append(("merge-guard", "merge_guard_case %s %s %s" % (C.cbool(b["turning"]), C.cbool(b["diverging"]), C.cbool(merged))))
            for (lq, lp, rq, rp, out) in hk.uturns[:40]:
                res.append(("uturn", "uturn_case %d %s %s %s %s %s" % (d, cvec(lq), cvec(lp), cvec(rq), cvec(rp), C.cbool(out))))
            for m in hk.merges:
                ref = m["cur"]
                res.append(("merge", "merge_case %s %s %s %s %s && close %s %s %s" % (
                    C.cbool(m["bias"]), C.cq(1.0), C.cq(math.exp(m["new"] - ref)), C.cq(TOL), C.cq(m["p"]),
                    C.cq(TOL), C.cq(1.0 + math.exp(m["new"] - ref)), C.cq(math.exp(m["lw"] - ref)))))
            # progressive sampling: the add-probabilities are logged in call order over all builds
            addlog = [p for (cx, p, _) in hk.proxy.log if cx == "add"]
            pos = 0
            fixed = []
            for r in res:
                if r[0] != "prog":
                    fixed.append(r)
                    continue
                _, _, b, ref, w0, ws = r
                keeps = addlog[pos:pos + len(ws)]
                pos += len(ws)
                fixed.append(("prog", "prog_case %s %s %s %s %s" % (
                    C.cq(w0), C.clist([C.cq(w) for w in ws]), C.cq(TOL), C.clist([C.cq(x) for x in keeps]),
                    C.cq(math.exp(b["logweight"] - ref)))))
            return fixed
        raise ValueError(k)

    def correspondence(self, ctx, res):
        _setup()
        import jax
        import jax.numpy as jnp
        # bernoulli == uniform < p (the model replays decisions from the uniform draw)
        for sd in range(5):
            key = jax.random.PRNGKey(1000 + sd)
            u = float(jax.random.uniform(key, (), jnp.float64))
            for pr in (0.0, 0.25, u, np.nextafter(u, 1.0), 0.9, 1.0):
                if bool(jax.random.bernoulli(key, jnp.float64(pr))) != (u < pr):
                    raise C.MachineryError("jax.random.bernoulli is not `uniform < p` any more")
        cases = []
        for c in ctx.corpus():
            if c.get("kind") in ("lf", "hmc", "nuts"):
                cases.append(c)
        cases += lf_cases(ctx) + hmc_cases(ctx) + nuts_cases(ctx)
        checks, meta = [], []
        self.cases, self.obs = [], []
        dist = {}
        nontrivial = set()
        for c in cases:
            try:
                o = self.observe(c)
            except Exception as e:
                res.add_broken("correspondence", "implementation raised", {"case": _js(c), "error": repr(e)[:300]})
                continue
            self.cases.append(c)
            self.obs.append(o)
            for lab, term in self.checks_for(c, o):
                checks.append(term)
                meta.append((lab, c))
                dist[lab] = dist.get(lab, 0) + 1
            if c["kind"] == "hmc":
                nontrivial.add(("hmc", o["acc"], o["div"], (c["spec"].get("bar") or [0, "none"])[1]))
            elif c["kind"] == "lf":
                nontrivial.add(("lf", c["spec"]["d"], c["n"], bool(any(c["spec"]["c"]))))
            else:
                nontrivial.add(("nuts", int(o["tree"].depth), bool(o["tree"].turning), c["bias"]))
        # momentum refresh on pytrees: which sub-key each leaf was drawn with, exact
        self.momentum_cases = []
        for t_i, t in enumerate(momentum_trees()):
            for sd in ((11, 12) if ctx.quick else (11, 12, 13, 14, 15)):
                c = dict(t, kind="momentum", seed=1000 * ctx.seed + 17 * t_i + sd)
                try:
                    o = observe_momentum(c)
                except Exception as e:
                    res.add_broken("correspondence", "implementation raised", {"case": _js(c), "error": repr(e)[:300]})
                    continue
                self.momentum_cases.append(c)
                checks.append("momentum_case %d %s" % (o["n"], C.clist([C.cz(i) for i in o["idx"]])))
                meta.append(("momentum", c))
                dist["momentum"] = dist.get("momentum", 0) + 1
                nontrivial.add(("momentum", t["name"], o["n"]))
        # non-unit mass matrices
        for c in mass_cases(ctx):
            try:
                o = observe_mass(c)
            except Exception as e:
                res.add_broken("correspondence", "implementation raised", {"case": _js(c), "error": repr(e)[:300]})
                continue
            n_e = min(len(o["sqrt"]), len(o["im"]))
            for j in range(n_e):
                checks.append("mass_case %s %s %s" % (C.cq(Fraction(1, 10 ** 12)), C.cq(float(o["sqrt"][j])), C.cq(float(o["im"][j]))))
                meta.append(("mass", c))
                dist["mass"] = dist.get("mass", 0) + 1
            if len(o["sqrt"]) != len(o["im"]):
                checks.append("false")
                meta.append(("mass", c))
            nontrivial.add(("mass", c["form"], c["sampler"], str(c["im"])))
        # chains continued from the returned core state
        self.resume_obs = []
        for c in resume_chain_cases(ctx):
            try:
                o = observe_resume_chain(c)
            except Exception as e:
                res.add_broken("correspondence", "implementation raised", {"case": _js(c), "error": repr(e)[:300]})
                continue
            self.resume_obs.append((c, o))
            for lab, t in resume_chain_checks(c, o):
                checks.append(t)
                meta.append((lab, c))
                dist[lab] = dist.get(lab, 0) + 1
            nontrivial.add(("resume_chain", c["sampler"], c["n"], c["k"]))
        # bit functions, exact
        rng = ctx.rng(3204)
        from nifty.re import hmc
        from jax import lax
        ns = list(range(0, 70)) + [int(rng.integers(0, 2 ** 40)) for _ in range(40)] + [2 ** k - 1 for k in (10, 20, 31, 40)]
        with Eager(True):
            for n in ns:
                pc = int(lax.population_count(jnp.asarray(n, dtype=jnp.int64)))
                ct = int(hmc.count_trailing_ones(jnp.asarray(n, dtype=jnp.int64)))
                checks.append("bits_case %d%%N %d%%N %d%%N" % (n, pc, ct))
                meta.append(("bits", {"kind": "bits", "n": n}))
                dist["bits"] = dist.get("bits", 0) + 1
        name = "corr%d" % os.getpid()
        try:
            bad = C.eval_cases(self.prop, name, HEADER, checks)
        finally:
            for f in os.listdir(ctx.run_dir()):
                if f.startswith("cases_%s_" % name) or f.startswith(".cases_%s_" % name):
                    try:
                        os.remove(os.path.join(ctx.run_dir(), f))
                    except OSError:
                        pass
        for i in bad[:5]:
            lab, c = meta[i]
            res.add_broken("correspondence", "%s: nifty/re/hmc.py vs coq/C32 model" % lab,
                           {"case": _js(c), "check": checks[i][:1500]})
        self.bad_cases = [meta[i][1] for i in bad]
        res.coverage.update({
            "evaluations": len(checks), "distinct_nontrivial": len(nontrivial),
            "rule": "generated potentials V = b.q + q.A.q/2 + sum c q^4/4 (dyadic parameters, d<=3, optional NaN/+inf barrier), dyadic states, step sizes, diagonal masses; "
                    "lf: n real leapfrog steps vs translated step in Q (rel. tol 1e-9); hmc: generate_hmc_acc_rej (eager, 1 in 10 compiled) vs model incl. accept decision replayed from the uniform draw, divergence flag, both returned points; "
                    "nuts: per iterative_build_tree call the exact sequence of checkpoint writes/reads, U-turn decisions on the recorded float arguments, keep/merge probabilities vs progressive-sampling model; bits: popcount / count_trailing_ones exact. "
                    "momentum: sample_momentum_from_diagonal on pytrees with several equal-shaped leaves (dict, nested, tuple, Vector): the sub-key index that reproduces each leaf bit for bit against leaf_keys; resume: k segments of n samples continued from the returned core state against one run of k*n samples (float64 bit patterns, HMC and NUTS) and the number of key advances of every returned key. nuts cases with a hard wall and finite max_energy_difference: whether each new sub-tree was merged against merge_guard(turning, diverging); mass: mass_matrix_sqrt of HMCChain / NUTSChain against inverse_mass_matrix entry by entry for non-unit scalar, anisotropic array and Vector masses (mass_case). distinct = classes (kind, dimension/steps/quartic | accept, diverging, barrier | depth, turning, bias | tree, leaves | sampler, n, k)",
            "samples": [_js(c) for c in self.cases[:2]],
            "input_distribution": dist, "disagreements": len(bad), "exhaustive": False,
        })
        return bad

    # ---- direct oracle
    def oracle(self, ctx, res, hints, budget):
        _setup()
        n_eval = 0
        rng = ctx.rng(3210)
        todo = []
        # cases on which the correspondence disagreed go first
        for c in getattr(self, "bad_cases", []):
            if c.get("kind") in ("lf", "hmc"):
                todo.append(c)
        n_hints = len(todo)
        nrev = (12 if ctx.quick else 60) * budget
        for i in range(nrev):
            spec, imm, eps, q, p = gen_common(rng)
            todo.append({"kind": "lf", "spec": spec, "imm": imm, "eps": eps, "q": q, "p": p, "n": int(rng.integers(1, 9))})
        for c in hmc_cases(ctx)[: (30 if ctx.quick else 150) * budget]:
            todo.append(c)
        for c in ctx.corpus():
            if c.get("kind") in ("chain", "nutsinv", "hmc", "lf", "momentum"):
                todo.append(c)
        for c in getattr(self, "bad_cases", []):
            if c.get("kind") in ("momentum", "mass") and c not in todo:
                todo.insert(0, c)
                n_hints += 1
        for t_i, t in enumerate(momentum_trees()):
            todo.append(dict(t, kind="momentum", seed=1000 * ctx.seed + 17 * t_i + 5))
        todo.append({"kind": "chain", "shape": 3.0, "eps": 0.9, "n": 2, "nsamp": 150, "seed": 7 + ctx.seed, "q0": 1.0})
        spec, imm, eps, q, p = gen_common(ctx.rng(3211), d=1)
        todo.append({"kind": "nutsinv", "spec": spec, "imm": imm, "eps": 0.5, "q": q, "p": p, "depth": 1, "bias": True})
        spec, imm, eps, q, p = gen_common(ctx.rng(3212), d=2)
        todo.append({"kind": "nutsinv", "spec": spec, "imm": imm, "eps": 0.375, "q": q, "p": p, "depth": 1, "bias": False})
        wall = {"d": 1, "A": [[1.0]], "b": [0.0], "c": [0.0], "bar": [0.0, "inf"]}
        todo.append({"kind": "nutsinv", "spec": wall, "imm": [1.0], "eps": 0.25, "q": [-0.25], "p": [1.0], "depth": 1, "bias": True, "maxd": 1000.0})
        todo.append({"kind": "nutsinv", "spec": wall, "imm": [1.0], "eps": 0.5, "q": [-0.5], "p": [0.75], "depth": 1, "bias": False, "maxd": 1000.0})
        if not ctx.quick:
            todo.append({"kind": "nutsinv", "spec": dict(wall, A=[[0.5]], b=[0.25]), "imm": [2.0], "eps": 0.25, "q": [-0.125], "p": [-0.5], "depth": 1, "bias": True, "maxd": 1000.0})
            spec, imm, eps, q, p = gen_common(ctx.rng(3213), d=1)
            todo.append({"kind": "nutsinv", "spec": spec, "imm": imm, "eps": 0.5, "q": q, "p": p, "depth": 2, "bias": True, "procs": 4})
            for tg in ("gauss1", "gauss2", "quartic"):
                for smp in ("hmc", "nuts"):
                    todo.append({"kind": "moments", "target": tg, "sampler": smp, "nsamp": 4000, "seed": 11 + ctx.seed})
        stats = {}
        for c, o in getattr(self, "resume_obs", []):
            n_eval += 1
            stats["resume_chain"] = stats.get("resume_chain", 0) + 1
            f = _direct_resume_chain(c, o)
            if f:
                res.add_failing({"fn": "generate_n_samples", "class": f[0]}, f[1], _js(c))
        for c in ctx.corpus():
            if c.get("kind") in ("resume_chain", "mass", "modes"):
                todo.append(c)
        todo += mass_cases(ctx)
        for j in range(2 if ctx.quick else 6):
            sp, im, _, q0, p0 = gen_common(ctx.rng(3220 + j), d=1 + j % 2)
            todo.append({"kind": "modes", "lo": 2 + j, "hi": 6 + j, "spec": sp, "imm": im, "eps": 0.0625, "q": q0, "p": p0,
                         "depth": 4, "seed": 77 + j})
        for k_todo, c in enumerate(todo):
            if k_todo >= n_hints and res.failing:
                break                      # a failing input among the disagreeing cases is enough
            try:
                f = direct_failure(c)
            except Exception as e:
                f = ("exception", "implementation raised: %r" % (e,))
            n_eval += 1
            stats[c["kind"]] = stats.get(c["kind"], 0) + 1
            if f:
                cls, what = f
                res.add_failing({"fn": _fn_of(c), "class": cls}, what, _js(c))
                if len(res.failing) >= 3:
                    break
        res.coverage["impl_property_evaluations"] = n_eval
        res.coverage["oracle_distribution"] = stats
        if not ctx.quick:
            res.notes.append("moments checks are STATISTICAL tests (batch-means z-scores, threshold 6 sigma); all other oracle checks are deterministic")

    def replay(self, ctx, rp):
        _setup()
        if rp.get("kind") == "no-failing-input-found":
            # re-evaluate the disagreeing correspondence cases against the current source
            try:
                self.translate(ctx)
            except C.TranslationError:
                return True
            ok, _ = C.coq_build(["C32/Exec.vo"])
            if not ok:
                return True
            checks = []
            for b in rp.get("broken", []):
                c = (b.get("detail") or {}).get("case")
                if b.get("kind") != "correspondence" or not isinstance(c, dict) or c.get("kind") not in ("lf", "hmc", "nuts"):
                    return True          # a proof / translator break: only a full run can tell
                checks += [t for _, t in self.checks_for(c, self.observe(c))]
            return bool(C.eval_cases(self.prop, "replay%d" % os.getpid(), HEADER, checks)) if checks else True
        return direct_failure(rp["input"]) is not None


def _fn_of(c):
    return {"lf": "leapfrog_step", "hmc": "generate_hmc_acc_rej", "chain": "HMCChain.generate_n_samples",
            "nutsinv": "generate_nuts_tree", "moments": "generate_n_samples", "momentum": "sample_momentum_from_diagonal", "resume_chain": "generate_n_samples", "mass": "_Sampler.__init__", "modes": "nifty.re.lax"}.get(c["kind"], c["kind"])


def _js(c):
    return json.loads(json.dumps(c, default=lambda x: np.asarray(x).tolist() if hasattr(x, "__array__") else str(x)))


# --------------------------------------------------------------------------------------------------
# the property, directly on the implementation
# --------------------------------------------------------------------------------------------------

def direct_failure(c):
    """None if the property holds on this input, else (class, description)."""
    k = c["kind"]
    if k == "lf":
        return _direct_leapfrog(c)
    if k == "hmc":
        return _direct_hmc(c)
    if k == "chain":
        return _direct_chain(c)
    if k == "nutsinv":
        return _direct_nuts_invariance(c)
    if k == "moments":
        return _direct_moments(c)
    if k == "momentum":
        return _direct_momentum(c)
    if k == "resume_chain":
        return _direct_resume_chain(c)
    if k == "mass":
        return _direct_mass(c)
    if k == "modes":
        return _direct_modes(c)
    raise ValueError(k)


def _direct_leapfrog(c):
    import jax
    import jax.numpy as jnp
    from nifty.re import hmc
    spec, imm, eps, n = c["spec"], c["imm"], c["eps"], c["n"]
    s, V = make_sampler(spec, imm, eps)
    d = spec["d"]

    def Ln(x, e):
        z = hmc.QP(position=x[:d], momentum=x[d:])
        for _ in range(n):
            z = s.stepper(e, s.inverse_mass_matrix, z)
        return jnp.concatenate([z.position, z.momentum])

    x0 = jnp.array(list(c["q"]) + list(c["p"]), dtype=jnp.float64)
    x1 = Ln(x0, float(eps))
    if not finite(x1):
        return None                                  # numerically diverged trajectory: nothing to compare
    scale = max(1.0, float(jnp.max(jnp.abs(x1))), float(jnp.max(jnp.abs(x0))))
    # amplification of rounding errors along the way back is bounded by the Jacobian's norm
    J = np.asarray(jax.jacfwd(lambda x: Ln(x, float(eps)))(x0))
    cond = max(1.0, np.linalg.norm(J, 2), np.linalg.norm(np.linalg.inv(J), 2))
    tol = 1e-12 * scale * cond * n
    flip = jnp.concatenate([jnp.ones(d), -jnp.ones(d)])
    back = Ln(x1 * flip, float(eps)) * flip
    err = float(jnp.max(jnp.abs(back - x0)))
    if not err <= tol:
        return ("reversibility", "flip(L^%d(flip(L^%d z))) differs from z by %.3e (tolerance %.1e)" % (n, n, err, tol))
    back2 = Ln(x1, -float(eps))
    err2 = float(jnp.max(jnp.abs(back2 - x0)))
    if not err2 <= tol:
        return ("reversibility", "%d steps with -eps after %d steps with eps differ from the start by %.3e (tolerance %.1e)" % (n, n, err2, tol))
    det = float(np.linalg.det(J))
    if not abs(det - 1.0) <= 1e-10 * cond ** 2 * n:
        return ("volume", "Jacobian determinant of %d leapfrog steps is %.12f" % (n, det))
    return None


def _direct_hmc(c):
    """detailed balance from the implementation's own transition probabilities."""
    spec, imm, eps, n, maxd = c["spec"], c["imm"], c["eps"], c["n"], c["maxd"]
    o = run_hmc_step(spec, imm, eps, c["q"], c["p"], n, c["seed"], maxd, eager=True)
    pxy = o["prob"]
    x = (np.asarray(c["q"], float), np.asarray(c["p"], float))
    y = (o["aq"], o["ap"]) if o["acc"] else (o["rq"], o["rp"])       # the proposal
    Hx, Hy = np_energy(spec, imm, *x), np_energy(spec, imm, *y)
    if o["acc"] != (o["u"] < pxy):
        return ("accept-rule", "accepted=%s but uniform draw %.17g vs transition probability %.17g" % (o["acc"], o["u"], pxy))
    if not math.isfinite(Hx):
        return None
    pix = math.exp(-Hx)
    if math.isnan(Hy) or Hy == math.inf:
        # the proposal lies outside the support (density 0): it must never be accepted
        if pxy != 0.0:
            return ("nan-energy-proposal" if math.isnan(Hy) else "inf-energy-proposal",
                    "proposal with energy %s is accepted with probability %g (target density there is 0)" % (Hy, pxy))
        return None
    scale = max(1.0, np.max(np.abs(x[0])), np.max(np.abs(x[1])), np.max(np.abs(y[0])), np.max(np.abs(y[1])))

    def proposal_from(q0, p0):
        o2 = run_hmc_step(spec, imm, eps, q0, p0, n, c["seed"] + 1, maxd, eager=True)
        return ((o2["aq"], o2["ap"]) if o2["acc"] else (o2["rq"], o2["rp"])), o2["prob"]

    def dist(a, b):
        return max(np.max(np.abs(a[0] - b[0])), np.max(np.abs(a[1] - b[1])))
    # the proposal map must pair the states up: either it is an involution (x -> y -> x), or it is one
    # up to the momentum flip under which the target is symmetric (x -> y, flip y -> flip x)
    back, pyx = proposal_from(y[0], y[1])
    if dist(back, x) > 1e-8 * scale:
        back2, pyx = proposal_from(y[0], -y[1])
        if dist(back2, (x[0], -x[1])) > 1e-8 * scale:
            return ("reversibility", "the proposal started from the proposal (or its momentum flip) does not lead back to the start (off by %.2e)" % dist(back, x))
    piy = math.exp(-Hy)
    if abs(pix * pxy - piy * pyx) > 1e-9 * max(pix, piy):
        return ("detailed-balance", "pi(x)P(x->y) = %.12g but pi(y)P(y->x) = %.12g" % (pix * pxy, piy * pyx))
    if math.isfinite(maxd) and abs(abs(Hx - Hy) - maxd) > 1e-9 and o["div"] != (abs(Hx - Hy) > maxd):
        return ("diverging-flag", "diverging=%s for |dH| = %g, limit %g" % (o["div"], abs(Hx - Hy), maxd))
    return None


def _direct_chain(c):
    """A finite HMC chain on Gamma(shape, 1) written with a logarithm (NaN outside the support)
    must stay inside the support."""
    import jax.numpy as jnp
    import nifty.re as jft
    a = c["shape"]

    def V(q):
        return jnp.sum(q - (a - 1.0) * jnp.log(q))
    s = jft.HMCChain(potential_energy=V, inverse_mass_matrix=1.0, position_proto=jnp.array(0.0), num_steps=c["n"],
                     step_size=float(c["eps"]))
    with Eager(False):
        chain, _ = s.generate_n_samples(int(c["seed"]), jnp.array(float(c["q0"])), num_samples=int(c["nsamp"]))
    x = np.asarray(chain.samples)
    bad = ~np.isfinite(x) | (x <= 0)
    if bad.any():
        i = int(np.argmax(bad))
        return ("nan-energy-proposal", "HMCChain on a Gamma(%g) target leaves the support at sample %d (value %s) and %d of %d samples are invalid" % (
            a, i, x[i], int(bad.sum()), len(x)))
    return None


def _enumerate_kernel(spec, imm, eps, q, p, depth, bias, limit=20000, maxd=math.inf):
    """All outcomes of one NUTS transition from (q,p) with their exact probabilities, by forcing the
    Bernoulli outcomes and multiplying the probabilities the implementation computed."""
    out = []
    stack = [[]]
    runs = 0
    while stack:
        script = stack.pop()
        t, hk = run_nuts(spec, imm, eps, q, p, 0, depth, bias, script=script, record=False, maxd=maxd)
        runs += 1
        if runs > limit:
            raise RuntimeError("kernel enumeration exceeds %d runs" % limit)
        log = hk.proxy.log
        pr = 1.0
        for (_, pb, o) in log:
            pb_eff = 0.0 if math.isnan(pb) else min(1.0, max(0.0, pb))
            pr *= pb_eff if o else 1.0 - pb_eff
        if pr > 0.0:
            out.append((pr, np.asarray(t.proposal_candidate.position), np.asarray(t.proposal_candidate.momentum)))
        for i in range(len(script), len(log)):
            pb = log[i][1]
            if not math.isnan(pb) and pb > 0.0:
                stack.append([o for (_, _, o) in log[:i]] + [True])
    return out, runs


def _kernel_worker(job):
    _setup()
    spec, imm, eps, q, p, depth, bias = job[:7]
    maxd = job[7] if len(job) > 7 else math.inf
    outs, runs = _enumerate_kernel(spec, imm, eps, q, p, depth, bias, limit=200000, maxd=maxd)
    return [(pr, np.asarray(a), np.asarray(b)) for pr, a, b in outs], runs


def _direct_nuts_invariance(c):
    """sum_i pi(z_i) K(z_i -> z_0) = pi(z_0) over the leapfrog orbit through z_0."""
    import jax.numpy as jnp
    from nifty.re import hmc
    spec, imm, eps, depth, bias = c["spec"], c["imm"], c["eps"], c["depth"], c["bias"]
    maxd = float(c.get("maxd", math.inf))
    s, V = make_sampler(spec, imm, eps, kind="nuts", max_tree_depth=depth, bias=bias, maxd=maxd)
    m = 2 ** (depth + 1) - 1
    z0 = hmc.QP(position=jnp.array(c["q"], dtype=jnp.float64), momentum=jnp.array(c["p"], dtype=jnp.float64))
    orbit = {0: z0}
    for sgn in (1, -1):
        z = z0
        for k in range(1, 2 * m + 1):
            z = s.stepper(sgn * float(eps), s.inverse_mass_matrix, z)
            orbit[sgn * k] = z
    pts = {k: (np.asarray(z.position), np.asarray(z.momentum)) for k, z in orbit.items()}
    if not all(finite(*v) for v in pts.values()):
        return None
    H = {k: np_energy(spec, imm, *v) for k, v in pts.items()}

    def index_of(qq, pp):
        best = min(pts, key=lambda k: max(np.max(np.abs(pts[k][0] - qq)), np.max(np.abs(pts[k][1] - pp))))
        dist = max(np.max(np.abs(pts[best][0] - qq)), np.max(np.abs(pts[best][1] - pp)))
        return best, dist
    total = 0.0
    nruns = 0
    if not math.isfinite(H[0]):
        return None
    # start points outside the support (infinite energy) carry no mass: they do not enter the sum
    starts = [i for i in range(-m, m + 1) if math.isfinite(H[i])]
    jobs = [(spec, imm, eps, pts[i][0].tolist(), pts[i][1].tolist(), depth, bias, maxd) for i in starts]
    if c.get("procs", 1) > 1:
        import concurrent.futures
        import multiprocessing
        with concurrent.futures.ProcessPoolExecutor(max_workers=int(c["procs"]),
                                                    mp_context=multiprocessing.get_context("spawn")) as ex:
            results = list(ex.map(_kernel_worker, jobs))
    else:
        results = [_kernel_worker(j) for j in jobs]
    for i, (outs, runs) in zip(starts, results):
        nruns += runs
        mass = sum(pr for pr, _, _ in outs)
        if abs(mass - 1.0) > 1e-9:
            return ("nuts-kernel", "transition probabilities from orbit point %d sum to %.12f" % (i, mass))
        for pr, qq, pp in outs:
            j, dist = index_of(qq, pp)
            if dist <= 1e-7 * max(1.0, np.max(np.abs(qq))) and not math.isfinite(H[j]):
                return ("nuts-kernel", "NUTS started inside the support returns a point outside it (infinite potential) with probability %.6g" % pr)
            if dist > 1e-7 * max(1.0, np.max(np.abs(qq))):
                return ("nuts-kernel", "NUTS returned a point that is not on the leapfrog orbit of its start (distance %.2e)" % dist)
            if j == 0:
                total += math.exp(-(H[i] - H[0])) * pr
    if abs(total - 1.0) > 1e-8:
        return ("nuts-invariance", "sum_i pi(z_i)K(z_i->z_0)/pi(z_0) = %.12f over the orbit (max_tree_depth=%d, bias=%s, %d enumerated runs)" % (
            total, depth, bias, nruns))
    return None


def _direct_moments(c):
    """STATISTICAL: long chains reproduce known moments (batch-means z-score, 6 sigma)."""
    import jax.numpy as jnp
    import nifty.re as jft
    tg = c["target"]
    if tg == "gauss1":
        V, proto, d = (lambda q: 0.5 * jnp.sum((q - 1.0) ** 2 / 4.0)), jnp.zeros(1), 1
        mom = {"mean": [1.0], "var": [4.0]}
    elif tg == "gauss2":
        Ai = jnp.array([[2.0, 0.6], [0.6, 1.0]])
        V, proto, d = (lambda q: 0.5 * q @ Ai @ q), jnp.zeros(2), 2
        cov = np.linalg.inv(np.asarray(Ai))
        mom = {"mean": [0.0, 0.0], "var": [cov[0, 0], cov[1, 1]]}
    else:
        V, proto, d = (lambda q: jnp.sum(q ** 4) / 4.0), jnp.zeros(1), 1
        g = math.gamma
        mom = {"mean": [0.0], "var": [2.0 * g(0.75) / g(0.25)]}
    if c["sampler"] == "hmc":
        s = jft.HMCChain(potential_energy=V, inverse_mass_matrix=1.0, position_proto=proto, num_steps=7, step_size=0.35)
    else:
        s = jft.NUTSChain(potential_energy=V, inverse_mass_matrix=1.0, position_proto=proto, step_size=0.35, max_tree_depth=6)
    with Eager(False):
        chain, _ = s.generate_n_samples(int(c["seed"]), proto + 0.1, num_samples=int(c["nsamp"]))
    x = np.asarray(chain.samples).reshape(int(c["nsamp"]), d)[200:]
    if not np.all(np.isfinite(x)):
        return ("moments", "chain contains non-finite samples")
    nb = 30
    L = len(x) // nb
    for j in range(d):
        for name, f, want in (("mean", lambda v: v, mom["mean"][j]), ("var", lambda v: (v - mom["mean"][j]) ** 2, mom["var"][j])):
            y = f(x[: nb * L, j]).reshape(nb, L).mean(axis=1)
            est, se = y.mean(), y.std(ddof=1) / math.sqrt(nb)
            if abs(est - want) > 6.0 * se + 1e-3:
                return ("moments", "STATISTICAL: %s of coordinate %d on %s/%s is %.4f +- %.4f, expected %.4f" % (
                    name, j, tg, c["sampler"], est, se, want))
    return None


CHECK = C32()
