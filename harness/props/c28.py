"""C28 -- Correlated-field models: implementations agree and scale correctly.

Tie:
  (a) translator tr/c28_norm.py regenerates coq/C28/Gen_Norm.v (the normalisation lines of JAX
      NonParametricAmplitude / MaternAmplitude) from /repo on every run; the normalisation theorems are
      proved about the generated functions;
  (b) hand model coq/C28/Model.v of `finalize` (outer product of normalised amplitudes, azm, per-space
      Hartley transform with harmonic pixel volume 1/V, offset) and of the coded total / slice / average
      fluctuation formulas, compared inside coqc (exact rationals, tolerance 1e-10 relative applied in
      Coq) with
        - the field the JAX and the classic implementation produce for given excitations (grids with
          axis lengths 1,2,4, both Hartley conventions, 1-2 sub-domains),
        - the variances computed from the implementation's exact linear response to basis excitations
          (total, per-space slice and average) against the model's formulas evaluated at the
          implementation's hyperparameter values,
        - the classic Matern `fluctuation_amplitude` against sum_{k>0} rho_k A_k^2 / V^2;
  (c) differential runs: classic vs JAX field for identical latent parameters (1e-10).
Direct oracle (no Coq): amplitude normalisation sum_{k>0} m_k A_k^2 = flu^2 V^2 and A_0 = V; realised
variance (exact, from basis excitations) = the model's own prediction (classic: total_fluctuation /
slice_fluctuation / average_fluctuation operators; JAX: flu, azm), for several resolutions and volumes;
spatial mean = offset + azm*xi_0; classic == JAX."""
import json
import os

import numpy as np

from .. import common as C

HEADER = ("From Coq Require Import List Arith Bool ZArith QArith Qcanon.\nImport ListNotations.\n"
          "Require Import NV.C09.Model NV.C28.Model.\nOpen Scope Q_scope.\n")

CONVS = ["non_canonical_hartley", "canonical_hartley"]
TOLQ = "(1 # 10000000000)%Q"      # 1e-10, applied inside Coq relative to max(1, |value|)
TOL = 1e-9


def quiet():
    import logging
    import nifty.cl as ift
    ift.logger.setLevel(logging.ERROR)
    try:
        import nifty.re as jft
        jft.logger.setLevel(logging.ERROR)
    except Exception:
        pass
    return ift


class Conv:
    def __init__(self, conv):
        self.conv = conv

    def __enter__(self):
        import nifty
        from nifty.config import _config
        self.old = _config.get("hartley_convention")
        nifty.config.update("hartley_convention", self.conv)

    def __exit__(self, *a):
        import nifty
        nifty.config.update("hartley_convention", self.old)


def cq(x):
    return C.cq(float(x))


def cqs(xs):
    return C.clist([cq(x) for x in np.asarray(xs, dtype=float).reshape(-1)])


def cnats(xs):
    return C.clist(["%d%%nat" % int(x) for x in xs])


# ---------------------------------------------------------------------------------------------------
# building the two implementations from one JSON-able configuration
# ---------------------------------------------------------------------------------------------------

def t2(x):
    return None if x is None else tuple(x)


def default_history(cfg):
    """Straight-line configuration: offset first, then the sub-domains in order."""
    return ([{"do": "offset", "mean": cfg["offset_mean"], "std": cfg["offset_std"]}]
            + [{"do": "add", "i": i} for i in range(len(cfg["spaces"]))])


def check_history(cfg, hist):
    """A history must END in the configuration the cfg describes (last offset, sub-domains in order)."""
    offs = [h for h in hist if h["do"] == "offset"]
    adds = [h["i"] for h in hist if h["do"] == "add"]
    if not offs or offs[-1]["mean"] != cfg["offset_mean"] or offs[-1]["std"] != cfg["offset_std"] \
            or adds != list(range(len(cfg["spaces"]))):
        raise ValueError("history does not end in the configuration it claims")


def build_jax(cfg, fresh=False):
    import nifty.re as jft
    m = jft.CorrelatedFieldMaker("")
    hist = default_history(cfg) if (fresh or not cfg.get("history")) else cfg["history"]
    check_history(cfg, hist)
    for h in hist:
        if h["do"] == "offset":
            m.set_amplitude_total_offset(offset_mean=h["mean"], offset_std=tuple(h["std"]))
        elif h["do"] == "add":
            i = h["i"]
            s = cfg["spaces"][i]
            if cfg["model"] == "npa":
                m.add_fluctuations(tuple(s["shape"]), distances=tuple(s["dist"]), fluctuations=tuple(s["flu"]),
                                   loglogavgslope=tuple(s["slope"]), flexibility=t2(s.get("flex")),
                                   asperity=t2(s.get("asp")), prefix="s%d" % i, harmonic_type="fourier",
                                   non_parametric_kind=cfg["np_kind"])
            else:
                m.add_fluctuations_matern(tuple(s["shape"]), distances=tuple(s["dist"]), scale=tuple(s["flu"]),
                                          cutoff=tuple(s["cutoff"]), loglogslope=tuple(s["slope"]),
                                          renormalize_amplitude=bool(cfg["renorm"]), prefix="s%d" % i,
                                          non_parametric_kind=cfg["np_kind"])
        elif h["do"] == "bad_add":    # a call with invalid arguments: must raise and leave the maker untouched
            sb = cfg["spaces"][h["i"]]
            kw = dict(fluctuations=tuple(sb["flu"]), loglogavgslope=tuple(sb["slope"]), flexibility=t2(sb.get("flex")),
                      asperity=t2(sb.get("asp")), prefix="s%d" % h["i"], non_parametric_kind=cfg["np_kind"])
            mk = dict(scale=tuple(sb["flu"]), cutoff=tuple(sb.get("cutoff", [1.0, 0.1])), loglogslope=tuple(sb["slope"]),
                      renormalize_amplitude=bool(cfg["renorm"]), prefix="s%d" % h["i"], non_parametric_kind=cfg["np_kind"])
            shp = tuple(h.get("shape", sb["shape"]))
            dst = tuple(h.get("dist", sb["dist"]))
            how = h["how"]
            try:
                if how == "flex_scalar":
                    m.add_fluctuations(shp, distances=dst, **dict(kw, flexibility=0.5))
                elif how == "bad_kind":
                    m.add_fluctuations(shp, distances=dst, **dict(kw, non_parametric_kind="pwr"))
                elif how == "flu_scalar":
                    m.add_fluctuations(shp, distances=dst, **dict(kw, fluctuations=3.0))
                elif how == "bad_harmonic_type":
                    m.add_fluctuations(shp, distances=dst, harmonic_type="fourrier", **kw)
                elif how == "matern_scale_scalar":
                    m.add_fluctuations_matern(shp, distances=dst, **dict(mk, scale=2.0))
                elif how == "matern_bad_kind":
                    m.add_fluctuations_matern(shp, distances=dst, **dict(mk, non_parametric_kind="pwr"))
                else:
                    raise KeyError(how)
            except (TypeError, ValueError):
                pass
            else:
                raise AssertionError("invalid arguments (%s) were accepted" % how)
        elif h["do"] == "read":       # derived quantities read in between (must not freeze anything)
            w = h["what"]
            if w == "amplitude":
                m.amplitude
            elif w == "power_spectrum":
                m.power_spectrum
            elif w == "normalized":
                m.get_normalized_amplitudes()
            elif w == "finalize":
                m.finalize()
            elif w == "total_fluctuation":
                pass                   # no such API in nifty.re
            else:
                raise ValueError(w)
        else:
            raise ValueError(h)
    return m, m.finalize()


def has_classic(cfg):
    """Configurations that exist in both APIs (see test/test_re/test_correlated_field.py)."""
    if cfg.get("classic_only"):
        return True
    if cfg["model"] == "npa":
        return cfg["np_kind"] == "power"
    return cfg["np_kind"] == "amplitude" and not cfg["renorm"]


def variant(cfg):
    """Which non-default feature of the classic API a configuration exercises (part of the signature)."""
    if cfg.get("history"):
        return "history"
    if not isinstance(cfg["offset_std"], (list, tuple)):
        return "scalar_offset_std"
    if not cfg.get("adjust", True):
        return "adjust_for_volume_false"
    return "default"


def build_classic(cfg, fresh=False):
    ift = quiet()
    m = ift.CorrelatedFieldMaker("")
    hist = default_history(cfg) if (fresh or not cfg.get("history")) else cfg["history"]
    check_history(cfg, hist)
    for h in hist:
        if h["do"] == "offset":
            ostd = h["std"]
            m.set_amplitude_total_offset(h["mean"], tuple(ostd) if isinstance(ostd, (list, tuple)) else ostd)
        elif h["do"] == "add":
            i = h["i"]
            s = cfg["spaces"][i]
            sp = ift.RGSpace(tuple(s["shape"]), tuple(s["dist"]))
            if cfg["model"] == "npa":
                m.add_fluctuations(sp, fluctuations=tuple(s["flu"]), flexibility=t2(s.get("flex")),
                                   asperity=t2(s.get("asp")), loglogavgslope=tuple(s["slope"]), prefix="s%d" % i)
            else:
                m.add_fluctuations_matern(sp, scale=tuple(s["flu"]), cutoff=tuple(s["cutoff"]),
                                          loglogslope=tuple(s["slope"]), prefix="s%d" % i,
                                          adjust_for_volume=bool(cfg.get("adjust", True)))
        elif h["do"] == "bad_add":
            sb = cfg["spaces"][h["i"]]
            sp = ift.RGSpace(tuple(h.get("shape", sb["shape"])), tuple(h.get("dist", sb["dist"])))
            kw = dict(fluctuations=tuple(sb["flu"]), flexibility=t2(sb.get("flex")) or (1.0, 0.1),
                      asperity=t2(sb.get("asp")), loglogavgslope=tuple(sb["slope"]), prefix="s%d" % h["i"])
            how = h["how"]
            try:
                if how in ("flex_scalar", "bad_kind", "bad_harmonic_type"):
                    m.add_fluctuations(sp, **dict(kw, flexibility=(-1.0, 0.1)))          # ValueError
                elif how == "flu_scalar":
                    m.add_fluctuations(sp, **dict(kw, fluctuations=(1.0,)))               # TypeError
                elif how in ("matern_scale_scalar", "matern_bad_kind"):
                    m.add_fluctuations(sp, **dict(kw, flexibility=None, asperity=(0.3, 0.1)))  # ValueError
                else:
                    raise KeyError(how)
            except (TypeError, ValueError):
                pass
            else:
                raise AssertionError("invalid arguments (%s) were accepted" % how)
        elif h["do"] == "read":
            w = h["what"]
            if w == "amplitude":
                m.amplitude
            elif w == "power_spectrum":
                m.power_spectrum
            elif w == "normalized":
                m.get_normalized_amplitudes()
            elif w == "finalize":
                m.finalize()
            elif w == "total_fluctuation":
                m.total_fluctuation
            else:
                raise ValueError(w)
        else:
            raise ValueError(h)
    return m, m.finalize()


def latent(cfg, jcf):
    rng = np.random.default_rng([int(cfg["seed"]), 28])
    return {k: rng.normal(size=tuple(v.shape)) for k, v in sorted(jcf.domain.items())}


def to_classic(pos, cf):
    ift = quiet()
    d = {k: ift.makeField(cf.domain[k], np.array(v) if not k.endswith("spectrum") else np.array(v.T))
         for k, v in pos.items()}
    return ift.MultiField.from_dict(d, cf.domain)


class Impl:
    """Uniform view of one implementation of one configuration at one latent position."""

    def __init__(self, cfg, which, pos=None):
        self.cfg, self.which = cfg, which
        self.native = bool(cfg.get("classic_only"))      # latent vector in the classic layout, no JAX twin
        if self.native:
            if which != "classic":
                raise ValueError("configuration exists only in the classic API")
            self.cm, self.cf = build_classic(cfg)
            rng = np.random.default_rng([int(cfg["seed"]), 28])
            self.pos = {k: rng.normal(size=tuple(self.cf.domain[k].shape)) for k in sorted(self.cf.domain.keys())}
            self.shape = tuple(np.shape(self.pos["xi"]))
            self.npos = self.to_cl(self.pos)
            return
        self.jm, self.jcf = build_jax(cfg)
        self.pos = latent(cfg, self.jcf) if pos is None else pos
        self.shape = tuple(np.shape(self.pos["xi"]))
        if which == "classic":
            self.cm, self.cf = build_classic(cfg)
            self.npos = to_classic(self.pos, self.cf)

    def to_cl(self, p):
        if not self.native:
            return to_classic(p, self.cf)
        ift = quiet()
        return ift.MultiField.from_dict({k: ift.makeField(self.cf.domain[k], np.array(v)) for k, v in p.items()},
                                        self.cf.domain)

    def field(self, xi=None):
        p = dict(self.pos)
        if xi is not None:
            p["xi"] = np.asarray(xi, dtype=float).reshape(self.shape)
        if self.which == "jax":
            return np.asarray(self.jcf(p))
        return self.cf(self.to_cl(p)).asnumpy()

    def response(self):
        n = int(np.prod(self.shape))
        f0 = self.field(np.zeros(n))
        L = np.stack([self.field(np.eye(n)[j]) - f0 for j in range(n)], axis=-1)
        return f0, L            # L has shape field.shape + (n,)

    def azm(self):
        if self.which == "jax":
            return float(self.jm.azm(self.pos))
        if np.isscalar(self.cm.azm):
            return float(self.cm.azm)
        return float(self.cm.azm.force(self.npos).asnumpy())

    def fluct(self):
        """The implementation's own fluctuation hyperparameter of each sub-domain (None if it has none)."""
        out = []
        for i in range(len(self.cfg["spaces"])):
            if self.which == "classic":
                out.append(float(self.cm.fluctuations[i].fluctuation_amplitude.force(self.npos).asnumpy()))
            else:
                a = self.jm.fluctuations[i]
                if self.cfg["model"] == "npa":
                    out.append(float(a.fluctuations(self.pos)))
                elif self.cfg["renorm"]:
                    out.append(float(a.scale(self.pos)))
                else:
                    out.append(None)
        return out

    def amplitudes(self):
        """Per sub-domain: (un-normalised amplitude on the power grid, multiplicities, pindex, volume)."""
        out = []
        for i in range(len(self.cfg["spaces"])):
            if self.which == "jax":
                a = self.jm.fluctuations[i]
                g = a.grid
                out.append((np.asarray(a(self.pos)), np.asarray(g.harmonic_grid.mode_multiplicity, dtype=float),
                            np.asarray(g.harmonic_grid.power_distributor), float(g.total_volume)))
            else:
                a = self.cm.fluctuations[i]
                ps = a.target[0]
                vol = float(np.prod(np.array(self.cfg["spaces"][i]["shape"]) * np.array(self.cfg["spaces"][i]["dist"])))
                rho = np.asarray(ps.dvol) / ps.harmonic_partner.scalar_dvol
                out.append((a.force(self.npos).asnumpy(), rho, np.asarray(ps.pindex), vol))
        return out

    def normalized_expanded(self):
        """Normalised amplitudes expanded to the harmonic cells of each sub-domain (flat)."""
        out = []
        azm = self.azm()
        for (amp, mult, pidx, vol) in self.amplitudes():
            na = np.array(amp, dtype=float)
            if azm != 0:
                na[1:] = na[1:] * (1.0 / azm)
            out.append(na[pidx].reshape(-1))
        return out


def variances(L, nspaces, axes_of):
    """Exact expected variances from the response tensor L (field axes + excitation axis):
    total about the global mean; per space s: along s within slices, and of the average over the others."""
    nd = L.ndim - 1
    fax = tuple(range(nd))
    N = int(np.prod(L.shape[:-1]))
    tot = ((L - L.mean(axis=fax, keepdims=True)) ** 2).sum() / N
    sl, av = [], []
    for s in range(nspaces):
        ax = axes_of[s]
        sl.append(((L - L.mean(axis=ax, keepdims=True)) ** 2).sum() / N)
        others = tuple(a for a in fax if a not in ax)
        r = L.mean(axis=others, keepdims=True) if others else L
        n_s = int(np.prod([L.shape[a] for a in ax]))
        av.append(((r - r.mean(axis=ax, keepdims=True)) ** 2).sum() / n_s)
    return tot, sl, av


def axes_of_spaces(cfg):
    out, k = [], 0
    for s in cfg["spaces"]:
        out.append(tuple(range(k, k + len(s["shape"]))))
        k += len(s["shape"])
    return out


# ---------------------------------------------------------------------------------------------------
# cases
# ---------------------------------------------------------------------------------------------------

def rnd_pair(rng, lo, hi, rel=0.2):
    m = float(np.round(rng.uniform(lo, hi), 3))
    return [m, float(np.round(abs(m) * rel + 0.01, 3))]


def gen_space(rng, model, exact, big=False):
    if exact:
        shapes = [[4], [2, 2], [4, 2], [2, 4], [4, 4]] if model == "npa" else [[2], [4], [2, 2], [4, 2], [4, 4]]
        shape = shapes[int(rng.integers(0, len(shapes)))]
        dist = [float(2.0 ** int(e)) for e in rng.integers(-2, 3, size=len(shape))]
    else:
        shapes = [[5], [6], [3, 3], [3, 2], [5, 3], [7], [4, 3]] + ([[12], [6, 5], [16]] if big else [])
        if model != "npa":
            shapes.append([3])      # the non-parametric model needs >= 3 distinct mode lengths
        shape = shapes[int(rng.integers(0, len(shapes)))]
        dist = [float(np.round(rng.uniform(0.1, 3.0), 3)) for _ in shape]
    s = {"shape": shape, "dist": dist, "flu": rnd_pair(rng, 0.3, 2.5), "slope": rnd_pair(rng, -4.0, -0.5)}
    if model == "npa":
        flex = bool(rng.integers(0, 2))
        s["flex"] = rnd_pair(rng, 0.3, 2.0) if flex else None
        s["asp"] = rnd_pair(rng, 0.1, 1.0) if (flex and rng.integers(0, 2)) else None
    else:
        s["cutoff"] = rnd_pair(rng, 0.3, 2.0)
    return s


def gen_cfg(rng, i, exact, big=False):
    model = "npa" if i % 3 != 2 else "matern"
    nsp = 1 + int(i % 2 == 1)
    spaces = [gen_space(rng, model, exact, big) for _ in range(nsp)]
    while np.prod([np.prod(s["shape"]) for s in spaces]) > (16 if not big else 64):
        spaces = spaces[:-1] if len(spaces) > 1 else [gen_space(rng, model, exact)]
    cfg = {"model": model, "spaces": spaces, "np_kind": ["power", "amplitude"][(i // 2) % 2],
           "renorm": bool((i // 3) % 2), "offset_mean": float(np.round(rng.normal(), 3)),
           "offset_std": rnd_pair(rng, 0.2, 1.5), "conv": CONVS[(i // 4) % 2], "seed": int(rng.integers(0, 2 ** 31))}
    return cfg


def fixed_cfgs():
    """Configurations present in both APIs (differential runs), incl. the classic Matern model."""
    sp = {"shape": [4], "dist": [0.5], "flu": [1.3, 0.2], "slope": [-2.0, 0.3], "flex": [1.0, 0.2], "asp": [0.3, 0.05]}
    sp2 = {"shape": [2, 2], "dist": [0.25, 2.0], "flu": [0.7, 0.1], "slope": [-3.0, 0.3], "flex": [0.8, 0.1], "asp": None}
    mt = {"shape": [4], "dist": [0.5], "flu": [1.3, 0.2], "slope": [-3.0, 0.3], "cutoff": [0.7, 0.1]}
    mt2 = {"shape": [2, 4], "dist": [1.0, 0.25], "flu": [0.6, 0.1], "slope": [-2.0, 0.3], "cutoff": [1.2, 0.1]}
    base = {"offset_mean": 0.3, "offset_std": [0.5, 0.1], "renorm": False}
    co = dict(base, classic_only=True)
    mt3 = {"shape": [8], "dist": [0.3], "flu": [1.2, 0.3], "slope": [-3.0, 0.5], "cutoff": [2.0, 0.5]}
    sp3 = {"shape": [6], "dist": [0.4], "flu": [1.3, 0.2], "slope": [-2.0, 0.3], "flex": [1.0, 0.2], "asp": [0.3, 0.05]}
    classic_only = [
        # Matern, adjust_for_volume False / True, volumes 2 and 2.4
        dict(co, model="matern", spaces=[mt], np_kind="amplitude", conv=CONVS[0], seed=21, adjust=False),
        dict(co, model="matern", spaces=[mt3], np_kind="amplitude", conv=CONVS[1], seed=22, adjust=False),
        dict(co, model="matern", spaces=[mt3], np_kind="amplitude", conv=CONVS[0], seed=23, adjust=True),
        # scalar zero-mode amplitude (neither 0 nor 1), disabled zero mode, unit zero mode
        dict(co, model="npa", spaces=[sp], np_kind="power", conv=CONVS[0], seed=24, offset_std=2.0),
        dict(co, model="npa", spaces=[sp3, sp2], np_kind="power", conv=CONVS[1], seed=25, offset_std=0.5),
        dict(co, model="matern", spaces=[mt3], np_kind="amplitude", conv=CONVS[0], seed=26, offset_std=2.5),
        dict(co, model="npa", spaces=[sp3], np_kind="power", conv=CONVS[0], seed=27, offset_std=None),
        dict(co, model="npa", spaces=[sp], np_kind="power", conv=CONVS[1], seed=28, offset_std=1.0),
    ]
    def off(mean, std):
        return {"do": "offset", "mean": mean, "std": std}

    def rd(w):
        return {"do": "read", "what": w}
    A, Bt = off(-0.2, [1.7, 0.3]), off(0.3, [0.5, 0.1])
    histories = [
        # both APIs: offset, add, reads, offset overwritten, (finalize)
        dict(base, model="npa", spaces=[sp], np_kind="power", conv=CONVS[0], seed=31,
             history=[{"do": "add", "i": 0}, A, rd("amplitude"), rd("power_spectrum"), Bt]),
        dict(base, model="npa", spaces=[sp, sp2], np_kind="power", conv=CONVS[1], seed=32,
             history=[A, {"do": "add", "i": 0}, rd("normalized"), {"do": "add", "i": 1}, rd("finalize"), Bt, rd("total_fluctuation")]),
        dict(base, model="matern", spaces=[mt], np_kind="amplitude", conv=CONVS[0], seed=33,
             history=[A, {"do": "add", "i": 0}, rd("finalize"), rd("total_fluctuation"), Bt, rd("normalized")]),
        # JAX only
        dict(base, model="matern", spaces=[mt2], np_kind="power", renorm=True, conv=CONVS[1], seed=34,
             history=[A, {"do": "add", "i": 0}, rd("amplitude"), rd("finalize"), Bt]),
        # classic only: scalar -> tuple, tuple -> scalar, tuple -> disabled
        dict(co, model="npa", spaces=[sp], np_kind="power", conv=CONVS[0], seed=35,
             history=[{"do": "add", "i": 0}, off(0.0, 2.0), rd("amplitude"), Bt]),
        dict(co, model="matern", spaces=[mt3], np_kind="amplitude", conv=CONVS[1], seed=36, offset_std=0.5,
             history=[A, {"do": "add", "i": 0}, rd("power_spectrum"), off(0.3, 0.5)]),
        dict(co, model="npa", spaces=[sp3], np_kind="power", conv=CONVS[0], seed=37, offset_std=None,
             history=[{"do": "add", "i": 0}, A, rd("normalized"), rd("finalize"), off(0.3, None)]),
    ]
    def bad(i, how, **kw):
        return dict({"do": "bad_add", "i": i, "how": how}, **kw)
    ad0, ad1 = {"do": "add", "i": 0}, {"do": "add", "i": 1}
    retry = [
        # a rejected call (invalid arguments) followed by the corrected call on the same maker
        dict(base, model="npa", spaces=[sp], np_kind="power", conv=CONVS[0], seed=41, history=[Bt, bad(0, "flex_scalar"), ad0]),
        dict(base, model="npa", spaces=[sp, sp2], np_kind="power", conv=CONVS[1], seed=42,
             history=[Bt, ad0, bad(1, "bad_kind", shape=[4], dist=[1.0]), ad1]),
        dict(base, model="npa", spaces=[sp2], np_kind="amplitude", conv=CONVS[0], seed=43,
             history=[bad(0, "flu_scalar", shape=[4, 4], dist=[0.5, 0.5]), Bt, bad(0, "bad_harmonic_type"), ad0]),
        dict(base, model="matern", spaces=[mt, mt2], np_kind="amplitude", conv=CONVS[1], seed=44,
             history=[Bt, bad(0, "matern_scale_scalar"), ad0, bad(1, "matern_bad_kind"), ad1]),
    ]
    # grids with three axes, and products of three and four sub-grids
    sp3d = {"shape": [2, 2, 2], "dist": [0.5, 1.0, 0.25], "flu": [1.1, 0.2], "slope": [-2.5, 0.3], "flex": [1.0, 0.2], "asp": [0.3, 0.05]}
    sp3i = {"shape": [4, 2, 2], "dist": [0.5, 0.5, 0.5], "flu": [0.9, 0.2], "slope": [-2.0, 0.3], "flex": [0.7, 0.2], "asp": None}
    mt3d = {"shape": [2, 4, 2], "dist": [1.0, 0.5, 2.0], "flu": [1.2, 0.2], "slope": [-3.0, 0.3], "cutoff": [0.9, 0.1]}
    mtf3 = {"shape": [3, 2, 3], "dist": [0.7, 1.3, 0.4], "flu": [0.8, 0.2], "slope": [-2.0, 0.3], "cutoff": [1.1, 0.1]}
    sp4 = {"shape": [4], "dist": [0.25], "flu": [0.6, 0.1], "slope": [-1.5, 0.3], "flex": None, "asp": None}
    mtb = {"shape": [2], "dist": [1.0], "flu": [0.9, 0.1], "slope": [-2.5, 0.3], "cutoff": [0.8, 0.1]}
    mtc = {"shape": [2], "dist": [0.25], "flu": [0.5, 0.1], "slope": [-1.5, 0.3], "cutoff": [1.5, 0.1]}
    mtd = {"shape": [3], "dist": [0.6], "flu": [0.7, 0.1], "slope": [-2.0, 0.3], "cutoff": [1.0, 0.1]}
    multi = [
        dict(base, model="npa", spaces=[sp3d], np_kind="power", conv=CONVS[0], seed=51),
        dict(base, model="npa", spaces=[sp3i], np_kind="power", conv=CONVS[1], seed=52),
        dict(base, model="matern", spaces=[mt3d], np_kind="amplitude", conv=CONVS[1], seed=53),
        dict(base, model="matern", spaces=[mtf3], np_kind="amplitude", conv=CONVS[0], seed=54),
        dict(base, model="npa", spaces=[sp3d], np_kind="amplitude", conv=CONVS[0], seed=55),
        dict(base, model="matern", spaces=[mtb, mt, mt2], np_kind="amplitude", conv=CONVS[0], seed=56),
        dict(base, model="npa", spaces=[sp, sp2, sp4], np_kind="power", conv=CONVS[1], seed=57),
        dict(base, model="matern", spaces=[mtb, mtc, mt, mtb], np_kind="amplitude", conv=CONVS[1], seed=58),
        dict(base, model="matern", spaces=[mtd, mtb, mtd], np_kind="power", renorm=True, conv=CONVS[0], seed=59),
    ]
    return histories + retry + multi + classic_only + [
        dict(base, model="npa", spaces=[sp], np_kind="power", conv=CONVS[0], seed=11),
        dict(base, model="npa", spaces=[sp, sp2], np_kind="power", conv=CONVS[1], seed=12),
        dict(base, model="matern", spaces=[mt], np_kind="amplitude", conv=CONVS[0], seed=13),
        dict(base, model="matern", spaces=[mt, mt2], np_kind="amplitude", conv=CONVS[1], seed=14),
        # JAX only: every (kind, renormalize) combination of the Matern model not covered above
        dict(base, model="matern", spaces=[mt], np_kind="power", conv=CONVS[0], seed=15),
        dict(base, model="matern", spaces=[mt2], np_kind="power", renorm=True, conv=CONVS[1], seed=16),
        dict(base, model="matern", spaces=[mt], np_kind="amplitude", renorm=True, conv=CONVS[0], seed=17),
    ]


def is_exact(cfg):
    return all(n in (1, 2, 4) for s in cfg["spaces"] for n in s["shape"])


# ---------------------------------------------------------------------------------------------------
# one configuration, one implementation: observations
# ---------------------------------------------------------------------------------------------------

def observe(cfg, which):
    with Conv(cfg["conv"]):
        im = Impl(cfg, which)
        f0, L = im.response()
        rng = np.random.default_rng([int(cfg["seed"]), 5])
        xi = rng.integers(-4, 5, size=int(np.prod(im.shape))) * 0.25
        y = im.field(xi)
        tot, sl, av = variances(L, len(cfg["spaces"]), axes_of_spaces(cfg))
        o = {"cfg": cfg, "impl": which, "azm": im.azm(), "fluct": im.fluct(), "f0": f0.reshape(-1).tolist(),
             "tot": float(tot), "slice": [float(v) for v in sl], "avg": [float(v) for v in av],
             "xi": xi.tolist(), "y": y.reshape(-1).tolist(), "namps": [a.tolist() for a in im.normalized_expanded()],
             "amps": [(a.tolist(), m.tolist(), float(v)) for (a, m, p, v) in im.amplitudes()],
             "mean_resp": L.reshape(-1, L.shape[-1]).mean(axis=0).tolist()}
        # |k| of every harmonic cell as the implementation sees it (for the independent mode-length check)
        kl = []
        for i in range(len(cfg["spaces"])):
            if which == "jax":
                hg = im.jm.fluctuations[i].grid.harmonic_grid
                kl.append(np.asarray(hg.mode_lengths, dtype=float)[np.asarray(hg.power_distributor)].reshape(-1).tolist())
            else:
                ps = im.cm.fluctuations[i].target[0]
                kl.append(np.asarray(ps.k_lengths, dtype=float)[np.asarray(ps.pindex)].reshape(-1).tolist())
        o["klen"] = kl
        if which == "jax" and cfg["model"] == "matern":
            o["matern"] = [{"scl": float(a.scale(im.pos)), "ctf": float(a.cutoff(im.pos)), "slp": float(a.loglogslope(im.pos)),
                            "k": np.asarray(a.grid.harmonic_grid.mode_lengths, dtype=float).tolist()}
                           for a in im.jm.fluctuations]
        if cfg.get("history"):
            # the same final configuration made by a fresh maker in one go, same latent vector, same excitations
            fr = Impl(dict(cfg, history=None), which)
            if set(fr.pos) != set(im.pos) or any(np.shape(fr.pos[k]) != np.shape(im.pos[k]) for k in fr.pos):
                # the model made through the history depends on other latent parameters than the fresh one
                o["history_keys"] = sorted(set(fr.pos) ^ set(im.pos))
            else:
                fr.pos = dict(im.pos)
                if which == "classic":
                    fr.npos = fr.to_cl(fr.pos)
                o["y_fresh"] = fr.field(xi).reshape(-1).tolist()
        if which == "classic":
            o["own_total"] = float(im.cm.total_fluctuation.force(im.npos).asnumpy()) ** 2
            o["own_slice"] = [float(im.cm.slice_fluctuation(s).force(im.npos).asnumpy()) ** 2 for s in range(len(cfg["spaces"]))]
            o["own_avg"] = [float(im.cm.average_fluctuation(s).force(im.npos).asnumpy()) ** 2 for s in range(len(cfg["spaces"]))]
        return o


def coq_checks(o):
    """Coq boolean terms (with labels) for one observation."""
    cfg = o["cfg"]
    out = []
    fls = o["fluct"]
    nsp = len(cfg["spaces"])
    nozm = o["azm"] == 0          # zero mode disabled (offset_std=None): single sub-domain only, total = average
    if all(f is not None for f in fls):
        if not nozm:
            out.append(("total", "c_total %s %s %s %s" % (TOLQ, cq(o["azm"]), cqs(fls), cq(o["tot"]))))
        else:
            out.append(("total", "c_average %s %s 0%%nat %s" % (TOLQ, cqs(fls), cq(o["tot"]))))
        for s in range(nsp):
            if nsp > 1:
                out.append(("slice%d" % s, "c_slice %s %s %s %d%%nat %s" % (TOLQ, cq(o["azm"]), cqs(fls), s, cq(o["slice"][s]))))
            out.append(("average%d" % s, "c_average %s %s %d%%nat %s" % (TOLQ, cqs(fls), s, cq(o["avg"][s]))))
    if o["impl"] == "classic":
        # the values returned by the coded total/slice/average_fluctuation operators vs the model's formulas
        if not nozm:
            out.append(("own_total", "c_total %s %s %s %s" % (TOLQ, cq(o["azm"]), cqs(fls), cq(o["own_total"]))))
        else:
            out.append(("own_total", "c_average %s %s 0%%nat %s" % (TOLQ, cqs(fls), cq(o["own_total"]))))
        for s in range(nsp):
            if nsp > 1:
                out.append(("own_slice%d" % s, "c_slice %s %s %s %d%%nat %s" % (TOLQ, cq(o["azm"]), cqs(fls), s, cq(o["own_slice"][s]))))
            out.append(("own_average%d" % s, "c_average %s %s %d%%nat %s" % (TOLQ, cqs(fls), s, cq(o["own_avg"][s]))))
    if cfg["model"] == "matern" and o["impl"] == "classic":
        for s in range(nsp):
            amp, rho, vol = o["amps"][s]
            out.append(("matern_fluct%d" % s, "c_matern_fluct %s %s %s %s %s" % (TOLQ, cq(vol), cqs(rho), cqs(amp), cq(fls[s] ** 2))))
    if nsp == 1:
        amp, rho, vol = o["amps"][0]
        # the realised variance is sum_{k>0} m_k A_k^2 / V^2 whatever the amplitude model is
        out.append(("variance_from_amplitude", "c_matern_fluct %s %s %s %s %s" % (TOLQ, cq(vol), cqs(rho), cqs(amp), cq(o["tot"]))))
    if "history_keys" in o:
        out.append(("history_domain", "false"))
    if is_exact(cfg) and not nozm:
        shapes = C.clist([cnats(s["shape"]) for s in cfg["spaces"]])
        vols = cqs([a[2] for a in o["amps"]])
        amps = C.clist([cqs(a) for a in o["namps"]])
        out.append(("field", "c_field %s %s %s %s %s %s %s %s %s" % (
            TOLQ, C.cbool(cfg["conv"] == CONVS[0]), shapes, vols, amps, cq(o["azm"]), cq(cfg["offset_mean"]),
            cqs(o["xi"]), cqs(o["y"]))))
    return out


def direct_failures(o, other=None):
    """The property on the implementation, without Coq.  Returns [(check, detail)]."""
    cfg = o["cfg"]
    out = []
    nsp = len(cfg["spaces"])
    fls = o["fluct"]
    azm = o["azm"]

    def rel(a, b):
        return abs(a - b) / max(1.0, abs(b))

    # amplitude normalisation (JAX non-parametric both kinds, Matern renormalised; classic non-parametric)
    for s in range(nsp):
        amp, rho, vol = o["amps"][s]
        amp, rho = np.array(amp), np.array(rho)
        # zero-mode entry: the volume (Matern with adjust_for_volume=False: 1, the caller adjusts azm himself)
        a0 = vol if cfg.get("adjust", True) else 1.0
        if abs(amp[0] - a0) > TOL * max(1.0, a0):
            out.append(("zero_mode_amplitude", "A_0 = %r is not %r" % (amp[0], a0)))
        norm_expected = cfg["model"] == "npa" or (o["impl"] == "jax" and cfg["renorm"])
        if norm_expected and fls[s] is not None:
            w = float((rho[1:] * amp[1:] ** 2).sum())
            if rel(w, fls[s] ** 2 * vol ** 2) > TOL:
                out.append(("normalisation", "sum m_k A_k^2 = %r but flu^2 V^2 = %r" % (w, fls[s] ** 2 * vol ** 2)))
    # mode lengths: |k| of cell (j_1..j_d) is sqrt(sum_a (min(j_a, n_a - j_a) / (n_a d_a))^2), from the grid alone
    for s, kimpl in enumerate(o.get("klen", [])):
        sp = cfg["spaces"][s]
        k2 = np.zeros(sp["shape"])
        for a, (nn, d) in enumerate(zip(sp["shape"], sp["dist"])):
            j = np.arange(nn)
            ka = np.minimum(j, nn - j) / (nn * d)
            shp = [1] * len(sp["shape"])
            shp[a] = nn
            k2 = k2 + (ka ** 2).reshape(shp)
        kref = np.sqrt(k2).reshape(-1)
        kimpl = np.array(kimpl)
        if kimpl.shape != kref.shape or np.abs(kimpl - kref).max() > 1e-10 * max(1.0, kref.max()):
            out.append(("mode_lengths", "sub-domain %d: harmonic mode lengths are not |k| of the grid %r" % (s, sp["shape"])))
    # documented Matern parametrisation: amplitude (kind 'amplitude') resp. power (kind 'power') spectrum
    # a / (1 + (k/b)^2)^(-c/4); un-renormalised amplitude = scale * sqrt(V) * spectrum, renormalised: same shape
    for s, mp in enumerate(o.get("matern", [])):
        amp, rho, vol = o["amps"][s]
        amp = np.array(amp)
        spec = (1.0 + (np.array(mp["k"]) / mp["ctf"]) ** 2) ** (mp["slp"] / 4.0)
        if cfg["np_kind"] == "power":
            spec = np.sqrt(spec)
        want = mp["scl"] * np.sqrt(vol) * spec
        if cfg["renorm"]:
            want = want * (amp[1] / want[1])
        if np.abs(amp[1:] - want[1:]).max() > TOL * max(1.0, np.abs(want[1:]).max()):
            out.append(("matern_spectrum", "amplitude is not scale*sqrt(V)*(1+(k/cutoff)^2)^(slope/4) [%s kind]" % cfg["np_kind"]))
    # realised variance vs the model's own prediction
    if all(f is not None for f in fls) and azm == 0:
        if rel(o["tot"], fls[0] ** 2) > TOL:
            out.append(("total_fluctuation", "expected spatial variance %r differs from fluctuations^2 %r (zero mode disabled)" % (o["tot"], fls[0] ** 2)))
    elif all(f is not None for f in fls):
        q = np.prod([1 + (f / azm) ** 2 for f in fls])
        pred_tot = float((q - 1) * azm ** 2)
        if rel(o["tot"], pred_tot) > TOL:
            out.append(("total_fluctuation", "expected spatial variance %r differs from the predicted total fluctuation^2 %r" % (o["tot"], pred_tot)))
        for s in range(nsp):
            ps = float(azm ** 2 * np.prod([(f / azm) ** 2 if j == s else 1 + (f / azm) ** 2 for j, f in enumerate(fls)]))
            if nsp > 1 and rel(o["slice"][s], ps) > TOL:
                out.append(("slice_fluctuation", "space %d: %r vs %r" % (s, o["slice"][s], ps)))
            if rel(o["avg"][s], fls[s] ** 2) > TOL:
                out.append(("average_fluctuation", "space %d: %r vs %r" % (s, o["avg"][s], fls[s] ** 2)))
    if o["impl"] == "classic":
        if rel(o["tot"], o["own_total"]) > TOL:
            out.append(("total_fluctuation", "expected spatial variance %r differs from total_fluctuation^2 = %r" % (o["tot"], o["own_total"])))
        for s in range(nsp):
            if nsp > 1 and rel(o["slice"][s], o["own_slice"][s]) > TOL:
                out.append(("slice_fluctuation", "space %d: %r vs slice_fluctuation^2 = %r" % (s, o["slice"][s], o["own_slice"][s])))
            if rel(o["avg"][s], o["own_avg"][s]) > TOL:
                out.append(("average_fluctuation", "space %d: %r vs average_fluctuation^2 = %r" % (s, o["avg"][s], o["own_avg"][s])))
    # offset: field at xi = 0 is the offset mean; only xi_0 moves the spatial mean, by azm
    if np.abs(np.array(o["f0"]) - cfg["offset_mean"]).max() > TOL:
        out.append(("offset", "field at zero excitation is not offset_mean"))
    mr = np.array(o["mean_resp"])
    want = np.zeros_like(mr)
    want[0] = azm if cfg.get("adjust", True) else azm / float(np.prod([a[2] for a in o["amps"]]))
    if np.abs(mr - want).max() > TOL * max(1.0, azm):
        out.append(("zero_mode", "spatial mean does not respond as azm * xi_0 only"))
    if "history_keys" in o:
        out.append(("history", "a maker configured through a history depends on other latent parameters than a fresh "
                    "maker with the same final configuration: %r" % (o["history_keys"],)))
    if "y_fresh" in o:
        d = np.abs(np.array(o["y"]) - np.array(o["y_fresh"])).max()
        if d > 1e-10 * max(1.0, np.abs(np.array(o["y_fresh"])).max()):
            out.append(("history", "a maker configured through a history (reads of derived quantities, overwritten offset) "
                        "gives a field differing by %.3e from a fresh maker with the same final configuration" % d))
    if other is not None:
        d = np.abs(np.array(o["y"]) - np.array(other["y"])).max()
        sc = max(1.0, np.abs(np.array(other["y"])).max())
        if d > 1e-10 * sc:
            out.append(("classic_vs_jax", "fields differ by %.3e for identical latent parameters" % d))
    return out


def resolution_failures(cfg):
    """Same hyperparameters, refined grid / different volume: the expected variance stays flu^2."""
    out = []
    if cfg["model"] != "npa" and not cfg.get("renorm"):
        return out
    c2 = json.loads(json.dumps(cfg))
    for s in c2["spaces"]:
        s["shape"] = [n + 1 + (i % 2) for i, n in enumerate(s["shape"])]
        s["dist"] = [d * 1.7 for d in s["dist"]]
    if np.prod([np.prod(s["shape"]) for s in c2["spaces"]]) > 64:
        return out
    o1, o2 = observe(cfg, "jax"), observe(c2, "jax")
    # the latent vectors have different sizes; compare through the hyperparameters
    for o in (o1, o2):
        q = np.prod([1 + (f / o["azm"]) ** 2 for f in o["fluct"]])
        if abs(o["tot"] - (q - 1) * o["azm"] ** 2) > TOL * max(1.0, o["tot"]):
            out.append(("resolution", "variance depends on the grid: %r" % o["cfg"]["spaces"]))
    return out


def signature(o_or_cfg, impl, check):
    cfg = o_or_cfg
    return {"impl": impl, "model": cfg["model"], "check": check, "variant": variant(cfg)}


def sweep_old(prop, max_age=3600):
    """Remove this check's per-process case files of earlier runs (older than an hour)."""
    import glob
    import time
    for f in glob.glob(os.path.join(C.run_dir(prop), "*corr_p*")):
        try:
            if time.time() - os.path.getmtime(f) > max_age:
                os.remove(f)
        except OSError:
            pass


class C28(C.Check):
    prop = "C28"
    coq_dir = "C28"
    trusted_base = [
        "Coq 8.16.1 kernel; classical real-number axioms of the standard library (normalisation theorems are over R)",
        "tr/c28_norm.py: fail-closed translator of the normalisation lines of JAX NonParametricAmplitude.__call__ / "
        "MaternAmplitude.__call__ (after `spectrum = jnp.exp(ln_spectrum)`) into coq/C28/Gen_Norm.v; vectors as lists, "
        "numpy broadcasting restricted to scalar*vector and equal-length vector*vector",
        "hand-written model coq/C28/Model.v of finalize / fluctuation formulas (tied by correspondence at 1e-10, not by translation)",
        "E[xi_i xi_j] = delta_ij: the expected variance is defined as the squared Frobenius norm of the centred linear response",
        "C09 (kernel facts of the Hartley transform): hypotheses of C28_variance_hartley; proved for axis lengths 1,2,4",
        "prior transforms of the hyperparameters (C30) and the integrated Wiener process (C29) are not modelled: the "
        "un-normalised spectrum is an arbitrary positive vector in the theorems",
        "classic _Amplitude/_Normalization (operator algebra) is not translated: tied through classic == JAX (differential) and the oracle",
    ]
    assumptions = [
        "excitations are independent with unit variance",
        "spectra are positive, multiplicities positive, at least one non-zero mode, volumes positive",
    ]
    build_timeout = 1500

    def __init__(self):
        self.obs = []
        self.errors = []

    def translate(self, ctx):
        from tr import c28_norm
        txt = c28_norm.translate(ctx.repo)
        C.write_if_changed(os.path.join(C.COQ, "C28", "Gen_Norm.v"), txt)

    def cases(self, ctx):
        rng = ctx.rng(28)
        fixed = fixed_cfgs()
        if ctx.quick:       # keep the quick tier short: these variants only run in the thorough tier
            fixed = [c for c in fixed if c["seed"] not in (23, 26, 28, 34, 43, 52, 54, 55, 59, 16, 17)]
        cfgs = [c["cfg"] for c in ctx.corpus() if "cfg" in c] + fixed
        n_exact, n_free = (3, 2) if ctx.quick else (36, 24)
        for i in range(n_exact):
            cfgs.append(gen_cfg(rng, i, True))
        for i in range(n_free):
            cfgs.append(gen_cfg(rng, i, False, big=not ctx.quick))
        return cfgs

    def correspondence(self, ctx, res):
        quiet()
        sweep_old(self.prop)
        self.obs = []
        self.errors = []
        checks, meta = [], []
        ndiff = dbad = 0
        for cfg in self.cases(ctx):
            try:
                if cfg.get("classic_only"):
                    observe_first = observe(cfg, "classic")
                else:
                    observe_first = observe(cfg, "jax")
            except Exception as e:      # the implementation raised on a legal configuration: a finding, not machinery
                self.errors.append((cfg, "classic" if cfg.get("classic_only") else "jax", repr(e)[:300]))
                checks.append("false")
                meta.append({"cfg": cfg, "impl": self.errors[-1][1], "check": "exception"})
                continue
            if cfg.get("classic_only"):
                self.obs.append([observe_first])
                for name, term in coq_checks(self.obs[-1][0]):
                    checks.append(term)
                    meta.append({"cfg": cfg, "impl": "classic", "check": name})
                continue
            oj = observe_first
            pair = [oj]
            if has_classic(cfg):
                try:
                    oc = observe(cfg, "classic")
                except Exception as e:
                    self.errors.append((cfg, "classic", repr(e)[:300]))
                    checks.append("false")
                    meta.append({"cfg": cfg, "impl": "classic", "check": "exception"})
                    self.obs.append(pair)
                    continue
                pair.append(oc)
                ndiff += 1
                d = np.abs(np.array(oj["y"]) - np.array(oc["y"])).max()
                if d > 1e-10 * max(1.0, np.abs(np.array(oj["y"])).max()):
                    dbad += 1
                    if dbad <= 2:
                        res.add_broken("correspondence", "differential: classic vs JAX field", {"cfg": cfg, "diff": float(d)})
            self.obs.append(pair)
            for o in pair:
                for name, term in coq_checks(o):
                    checks.append(term)
                    meta.append({"cfg": cfg, "impl": o["impl"], "check": name})
        bad = C.eval_cases(self.prop, "corr_p%d" % os.getpid(), HEADER, checks, shard=150, jobs=4)
        # a disagreement that lies inside the signature of an OPEN known finding is accounted for by it
        oracle_name = {"total": "total_fluctuation", "own_total": "total_fluctuation", "average": "average_fluctuation",
                       "own_average": "average_fluctuation", "slice": "slice_fluctuation", "own_slice": "slice_fluctuation",
                       "field": "zero_mode", "variance_from_amplitude": "total_fluctuation"}
        shown = 0
        for i in bad:
            base = meta[i]["check"].rstrip("0123456789")
            sig = signature(meta[i]["cfg"], meta[i]["impl"], oracle_name.get(base, base))
            known = C.match_known(self.prop, {"signature": sig})
            if known is None and shown >= 4:
                continue
            res.add_broken("correspondence", "correlated field %s vs coq/C28/Model.v (%s)" % (meta[i]["impl"], meta[i]["check"]), meta[i])
            if known is not None:
                res.broken[-1]["covered_by_known"] = known["id"]
            else:
                shown += 1
        distinct = len({json.dumps([m["cfg"]["model"], m["cfg"]["np_kind"], m["cfg"]["renorm"], m["impl"], m["check"],
                                    [s["shape"] for s in m["cfg"]["spaces"]], m["cfg"]["conv"]], sort_keys=True)
                        for m in meta})
        dist = {}
        for m in meta:
            k = "%s:%s:%s" % (m["impl"], m["cfg"]["model"], m["check"].rstrip("0123456789"))
            dist[k] = dist.get(k, 0) + 1
        res.coverage.update({
            "evaluations": len(checks), "distinct_nontrivial": distinct,
            "rule": "configurations = fixed (4 present in both APIs, 8 classic-only: adjust_for_volume / scalar offset_std, 3 JAX-only Matern kinds) + generated (non-parametric / Matern, amplitude / "
                    "power, renormalised or not, 1-2 sub-domains, both Hartley conventions, random hyperparameter priors, "
                    "offsets and latent vectors); checks per configuration and implementation: field (exact grids), "
                    "total / slice / average variance from the exact linear response vs the model's formulas, variance "
                    "from the amplitude, classic Matern prediction; all configurations have >= 3 modes so every check "
                    "is non-trivial; distinct by (model, kind, renorm, implementation, check, shapes, convention)",
            "samples": [meta[0], meta[len(meta) // 2]],
            "input_distribution": dist,
            "disagreements": len(bad),
            "differential_classic_vs_jax_runs": ndiff, "differential_disagreements": dbad,
            "exhaustive": False,
        })
        return [meta[i] for i in bad]

    def oracle(self, ctx, res, hints, budget):
        quiet()
        n = 0
        seen = set()
        if res.broken and all(b.get("covered_by_known") for b in res.broken):
            budget = 1

        def report(cfg, impl, fl):
            for name, detail in fl:
                sig = signature(cfg, impl, name)
                key = json.dumps(sig, sort_keys=True)
                if key in seen:
                    continue
                seen.add(key)
                res.add_failing(sig, "%s %s correlated field: %s [%s]" % (impl, cfg["model"], detail, name),
                                {"cfg": cfg, "impl": impl})

        for cfg, impl, err in getattr(self, "errors", []):
            report(cfg, impl, [("exception", err)])
        for pair in self.obs:
            n += 1
            oj = pair[0]
            if oj["impl"] == "classic":
                report(oj["cfg"], "classic", direct_failures(oj))
                continue
            report(oj["cfg"], "jax", direct_failures(oj))
            if len(pair) > 1:
                report(oj["cfg"], "classic", direct_failures(pair[1], other=oj))
        rng = ctx.rng(29)
        nres = (1 if ctx.quick else 10) * budget
        for i in range(nres):
            cfg = gen_cfg(rng, 2 * i + (i % 2), False)
            n += 1
            try:
                report(cfg, "jax", resolution_failures(cfg))
            except Exception as e:
                report(cfg, "jax", [("exception", repr(e)[:300])])
        if budget > 1:
            for i in range(10 * budget):
                cfg = gen_cfg(rng, i, False, big=True)
                n += 1
                # an implementation that cannot even be evaluated on a legal configuration (e.g. the classic
                # and the JAX maker disagree about the latent shapes) is a failing input, not a harness error
                try:
                    oj = observe(cfg, "jax")
                    report(cfg, "jax", direct_failures(oj))
                except Exception as e:
                    report(cfg, "jax", [("exception", repr(e)[:300])])
                    continue
                if has_classic(cfg):
                    try:
                        report(cfg, "classic", direct_failures(observe(cfg, "classic"), other=oj))
                    except Exception as e:
                        report(cfg, "classic", [("exception", repr(e)[:300])])
        res.coverage["impl_property_evaluations"] = n

    def replay(self, ctx, rp):
        quiet()
        cfg, impl = rp["input"]["cfg"], rp["input"]["impl"]
        want = rp["signature"]["check"]
        try:
            if cfg.get("classic_only"):
                return any(name == want for name, _ in direct_failures(observe(cfg, "classic")))
            oj = observe(cfg, "jax")
            if impl == "jax":
                fl = direct_failures(oj) + (resolution_failures(cfg) if want == "resolution" else [])
            else:
                fl = direct_failures(observe(cfg, "classic"), other=oj)
        except Exception:
            return True
        return any(name == want for name, _ in fl)


CHECK = C28()
