"""Faster variant of common.eval_cases for checks with large literal data (created for C31/C29/C33).

Differences to common.eval_cases (same contract: list of Coq bool terms -> failing indices):
  * each check is first bound by `Definition c<i> : bool := <term>.` and only the *name* is handed
    to `eval vm_compute` (interning a megabyte term inside an Ltac expression is ~2.5x slower);
  * shards are balanced by text size (largest first, greedy), not cut by count.
A check that fails to elaborate makes coqc fail => MachineryError (fail closed), exactly as before."""
import os
import re
import subprocess

from . import common as C


def eval_bools(prop, name, header, checks, timeout=900, jobs=5, nshards=None):
    d = C.run_dir(prop)
    pid = os.getpid()           # per-process scratch names: concurrent runs of the same check do not collide
    import time
    for f in os.listdir(d):
        fp = os.path.join(d, f)
        try:
            if f.startswith(("fcases_", ".fcases_")) and (("_p%d_" % pid) in f or time.time() - os.path.getmtime(fp) > 3600):
                os.remove(fp)
        except OSError:
            pass
    if not checks:
        return []
    nshards = nshards or max(1, min(len(checks), jobs))
    order = sorted(range(len(checks)), key=lambda i: -len(checks[i]))
    bins = [[] for _ in range(nshards)]
    load = [0] * nshards
    for i in order:
        k = load.index(min(load))
        bins[k].append(i)
        load[k] += len(checks[i]) + 200
    files = []
    for k, b in enumerate(bins):
        if not b:
            continue
        path = os.path.join(d, "fcases_%s_p%d_%d.v" % (name, pid, k))
        with open(path, "w") as f:
            f.write(header + "\n")
            for i in sorted(b):
                f.write("Definition c%d : bool := %s.\n" % (i, checks[i]))
                f.write("Goal True. let b := eval vm_compute in c%d in match b with true => idtac | _ => idtac \"@@BAD %d\" end. Abort.\n" % (i, i))
            f.write('Goal True. idtac "@@DONE %d". Abort.\n' % k)
        files.append(path)
    bad = []
    pending = list(files)
    running = []
    while pending or running:
        while pending and len(running) < jobs:
            p = pending.pop(0)
            cmd = ["timeout", str(timeout), "coqc", "-R", C.COQ, "NV", "-w", "none", p]
            running.append((p, subprocess.Popen(cmd, cwd=d, stdout=subprocess.PIPE, stderr=subprocess.STDOUT, text=True)))
        p, pr = running.pop(0)
        out, _ = pr.communicate()
        if pr.returncode != 0 or "@@DONE" not in out:
            raise C.MachineryError("cases file %s failed to evaluate:\n%s" % (p, out[-3000:]))
        bad += [int(x) for x in re.findall(r"@@BAD (\d+)", out)]
    return sorted(bad)


def enable_jax_cache():
    """Persistent XLA compilation cache under run/ (git-ignored): the checks call many tiny
    eagerly-dispatched JAX primitives on many shapes; caching the executables only saves time."""
    import jax
    d = os.path.join(C.RUN, "jaxcache")
    os.makedirs(d, exist_ok=True)
    try:
        jax.config.update("jax_compilation_cache_dir", d)
        jax.config.update("jax_persistent_cache_min_compile_time_secs", 0.0)
        jax.config.update("jax_persistent_cache_min_entry_size_bytes", -1)
    except Exception:
        pass
