"""Assemble /verif/MANIFEST.json from manifest.d/Cxx.json (one file per claimed property) and
manifest.d/_base.json; properties without an entry are listed under not_applicable with the
reason given in manifest.d/_na.json.  Run:  /venv/bin/python -m harness.mkmanifest"""
import json
import os
import sys

HOME = os.path.dirname(os.path.dirname(os.path.abspath(__file__)))


def main():
    d = os.path.join(HOME, "manifest.d")
    base = json.load(open(os.path.join(d, "_base.json")))
    na = json.load(open(os.path.join(d, "_na.json")))
    props = [json.loads(l)["id"] for l in open(os.path.join(HOME, "properties.jsonl"))]
    checks = []
    napp = []
    for p in props:
        f = os.path.join(d, p + ".json")
        if os.path.exists(f):
            e = json.load(open(f))
            e.setdefault("property_id", p)
            e.setdefault("quick_cmd", "./check %s --tier quick" % p)
            e.setdefault("thorough_cmd", "./check %s --tier thorough" % p)
            e.setdefault("evidence_file", "/verif/evidence/%s.json" % p)
            e.setdefault("replay_cmd_template", "./check %s --replay {path}" % p)
            e.setdefault("engine", "coq-proof+correspondence")
            checks.append(e)
        else:
            napp.append({"property_id": p, "reason": na.get(p, "no check built yet in this round (see DESIGN.md section 5 for the planned model); not claimed")})
    m = dict(base)
    m["checks"] = checks
    m["not_applicable"] = napp
    json.dump(m, open(os.path.join(HOME, "MANIFEST.json"), "w"), indent=1)
    # known findings: one committed file assembled from the per-property fragments
    kd = os.path.join(HOME, "known.d")
    findings = []
    if os.path.isdir(kd):
        for f in sorted(os.listdir(kd)):
            if f.endswith(".json"):
                findings += json.load(open(os.path.join(kd, f)))
    json.dump({"findings": findings}, open(os.path.join(HOME, "known_findings.json"), "w"), indent=1)
    try:
        import jsonschema
        jsonschema.validate(m, json.load(open("/root/.vp/MANIFEST.schema.json")))
        print("MANIFEST.json valid: %d checks, %d not_applicable" % (len(checks), len(napp)))
    except ImportError:
        print("MANIFEST.json written (jsonschema not available to validate)")


if __name__ == "__main__":
    main()
