"""C24 -- subprocess driver: one (possibly killed) run of nifty.re.optimize_kl with every
file-system operation under the output directory traced and counted.

Usage:  /venv/bin/python /verif/harness/c24_driver.py spec.json
spec = {"odir":..., "out":..., "resume": bool, "crash_at": int (-1 = never), "mode": "kill"|"flush"|"torn",
        "frac": float, "case": {...}}

Crash semantics (process kill = os._exit, nothing is flushed or cleaned up by Python):
  kill   exit immediately BEFORE traced operation number crash_at (0-based); data still sitting in
         Python's file buffers is lost, exactly as with SIGKILL;
  flush  as kill, but every traced file that is open is flushed first (the OS got everything that
         was handed to the file objects so far);
  torn   operation crash_at must be a write: a strict prefix (fraction `frac`) of its data is handed
         over and flushed together with everything before, then the process exits.
The tracer keeps a byte-exact shadow of the directory built from the traced operations alone; at a
clean end the shadow must equal the real directory (fail closed against untraced file activity).

Nothing here imports the harness; the file is self-contained so that it can run in a bare process.
"""
import builtins
import hashlib
import io
import json
import os
import sys


class Tracer:
    def __init__(self, odir, crash_at, mode, frac, out):
        self.odir = os.path.realpath(odir)
        self.crash_at, self.mode, self.frac, self.out = crash_at, mode, frac, out
        self.ops = []            # [kind, name, extra]
        self.open_files = []     # TracedFile objects currently open for writing
        self.shadow = {}         # relative name -> bytearray (what the traced ops put there)
        self.orig = {}
        self.header = {}
        self.depth = 0           # > 0 while inside a traced os-level call (nested calls are not ops)
        self.restore = []        # (object, attribute, original) for uninstall
        self.snaps = {}          # op index -> [{"mode","frac","dest"}]: directory snapshots to take
        self.watch = {}          # realpath of a file outside the directory -> name under which it is traced
        self.snap_cb = None      # or: callback(k, kind, name, open_names) -> [{"mode","frac","dest"}]
        self.snaps_taken = []

    # -- bookkeeping -------------------------------------------------------------------------
    def rel(self, path):
        try:
            p = os.path.realpath(os.fspath(path))
        except TypeError:
            return None
        if p in self.watch:
            return self.watch[p]
        if p == self.odir:
            return "."
        if p.startswith(self.odir + os.sep):
            return os.path.relpath(p, self.odir)
        return None

    def dump(self, extra):
        d = dict(self.header)
        d.update({"ops": self.ops, "n_ops": len(self.ops)})
        d.update(extra)
        fd = os.open(self.out + ".part", os.O_WRONLY | os.O_CREAT | os.O_TRUNC, 0o644)
        os.write(fd, json.dumps(d).encode())
        os.close(fd)
        self.orig["os.replace"](self.out + ".part", self.out)

    def op(self, kind, name, tf=None, data=None, extra=None):
        """Called immediately before the operation is performed."""
        snaps = list(self.snaps.get(len(self.ops), ()))
        if self.snap_cb is not None:
            snaps += self.snap_cb(len(self.ops), kind, name, [t.name for t in self.open_files])
        for snap in snaps:
            self.snapshot(snap, kind, tf, data)
        if len(self.ops) == self.crash_at:
            self.crash(kind, name, tf, data)
        self.ops.append([kind, name] + ([extra] if extra is not None else []))

    def crash(self, kind, name, tf, data):
        if self.mode == "torn":
            if kind != "write":
                self.dump({"outcome": "bad-spec", "detail": "torn crash at a non-write op %s" % kind})
                os._exit(78)
            n = len(data)
            k = min(n - 1, max(0, int(n * self.frac))) if n > 0 else 0
            tf.f.write(data[:k])
        if self.mode in ("torn", "flush"):
            for t in list(self.open_files):
                try:
                    t.f.flush()
                except Exception:
                    pass
        self.dump({"outcome": "killed", "killed_before": [kind, name], "mode": self.mode})
        os._exit(77)

    # -- wrappers ----------------------------------------------------------------------------
    def install(self, modules=("nifty.re.optimize_kl",)):
        tr = self
        o_open = builtins.open
        self.orig["open"] = o_open
        if os.path.isdir(self.odir):          # the shadow starts from what is there
            for d, _, fs in os.walk(self.odir):
                for f in fs:
                    n = os.path.relpath(os.path.join(d, f), self.odir)
                    self.shadow[n] = bytearray(self.read_real(n))

        def t_open(file, mode="r", *a, **kw):
            name = tr.rel(file) if isinstance(file, (str, bytes, os.PathLike)) else None
            if name is None or tr.depth:
                return o_open(file, mode, *a, **kw)
            m = mode if isinstance(mode, str) else "r"
            if "w" in m or "x" in m:
                kind = "open-w"
            elif "a" in m:
                kind = "open-a"
            elif "+" in m:
                kind = "open-rw"
            else:
                kind = "open-r"
            tr.op(kind, name)
            f = o_open(file, mode, *a, **kw)
            if kind == "open-w":
                tr.shadow[name] = bytearray()
            elif kind in ("open-a", "open-rw"):
                tr.shadow.setdefault(name, bytearray(tr.read_real(name)))
            return TracedFile(tr, f, name, kind, "b" in m)

        self.restore += [(builtins, "open", builtins.open), (io, "open", io.open)]
        builtins.open = t_open
        io.open = t_open

        def wrap2(modname, fname, kind):
            mod = sys.modules[modname]
            orig = getattr(mod, fname)
            self.orig["%s.%s" % (modname, fname)] = orig

            def w(src, dst, *a, **kw):
                s, d = tr.rel(src), tr.rel(dst)
                if s is None and d is None:
                    return orig(src, dst, *a, **kw)
                if tr.depth:
                    return orig(src, dst, *a, **kw)
                tr.op(kind, "%s->%s" % (s, d))
                tr.depth += 1
                try:
                    r = orig(src, dst, *a, **kw)
                finally:
                    tr.depth -= 1
                if s in tr.shadow:
                    buf = tr.shadow.pop(s)
                    if d is not None:
                        tr.shadow[d] = buf
                return r
            w._c24_orig = orig
            self.restore.append((mod, fname, orig))
            setattr(mod, fname, w)
            return orig, w

        def wrap1(modname, fname, kind, removes=False):
            mod = sys.modules[modname]
            orig = getattr(mod, fname)
            self.orig["%s.%s" % (modname, fname)] = orig

            def w(path, *a, **kw):
                n = tr.rel(path)
                if n is None:
                    return orig(path, *a, **kw)
                if tr.depth:
                    return orig(path, *a, **kw)
                tr.op(kind, n)
                tr.depth += 1
                try:
                    r = orig(path, *a, **kw)
                finally:
                    tr.depth -= 1
                if removes:
                    tr.shadow.pop(n, None)
                return r
            w._c24_orig = orig
            self.restore.append((mod, fname, orig))
            setattr(mod, fname, w)
            return orig, w

        pairs = [wrap2("os", "replace", "replace"), wrap2("os", "rename", "replace"),
                 wrap1("os", "remove", "remove", True), wrap1("os", "unlink", "remove", True),
                 wrap1("os", "makedirs", "makedirs"), wrap1("os", "mkdir", "makedirs"),
                 wrap1("os", "rmdir", "rmdir"), wrap1("os", "truncate", "truncate")]
        import shutil
        pairs += [wrap2("shutil", "move", "replace"), wrap2("shutil", "copyfile", "copy"),
                  wrap2("shutil", "copy", "copy"), wrap2("shutil", "copy2", "copy"),
                  wrap1("shutil", "rmtree", "rmtree")]
        # names bound by `from os import makedirs` etc. inside the modules under test
        import importlib
        for mn in modules:
            M = importlib.import_module(mn)
            for k, v in list(vars(M).items()):
                if k == "open":
                    self.restore.append((M, k, v))
                    setattr(M, k, t_open)
                for orig, w in pairs:
                    if v is orig:
                        self.restore.append((M, k, v))
                        setattr(M, k, w)

    def uninstall(self):
        for obj, attr, orig in reversed(self.restore):
            setattr(obj, attr, orig)
        self.restore = []

    def snapshot(self, snap, kind, tf, data):
        """Copy of the directory exactly as a process kill at this instant would leave it
        (mode kill: what is on disk now, unflushed buffers are not; flush: every open file holds
        all bytes handed over so far; torn: additionally a strict prefix of the write in flight)."""
        import shutil
        self.depth += 1
        self.snaps_taken.append({"k": len(self.ops), "mode": snap["mode"], "frac": snap["frac"], "dest": snap["dest"]})
        try:
            dest = snap["dest"]
            if os.path.isdir(self.odir):
                shutil.copytree(self.odir, dest)
            else:
                os.makedirs(os.path.dirname(dest), exist_ok=True)
            if snap["mode"] in ("flush", "torn"):
                for t in self.open_files:
                    buf = bytes(self.shadow.get(t.name) or b"")
                    if snap["mode"] == "torn" and t is tf:
                        # the same strict prefix the torn crash hands to the file object (bytes in
                        # binary mode, characters in text mode)
                        piece = bytes(data) if t.binary else str(data)
                        n = len(piece)
                        piece = piece[:min(n - 1, max(0, int(n * snap["frac"]))) if n > 0 else 0]
                        buf += piece if t.binary else piece.encode(getattr(t.f, "encoding", None) or "utf-8")
                    with self.orig["open"](os.path.join(dest, t.name), "wb") as f:
                        f.write(buf)
        finally:
            self.depth -= 1

    def read_real(self, name):
        try:
            with self.orig["open"](os.path.join(self.odir, name), "rb") as f:
                return f.read()
        except OSError:
            return b""

    def shadow_mismatch(self):
        """Files whose real content differs from what the traced operations produced."""
        real = {}
        if os.path.isdir(self.odir):
            for d, _, fs in os.walk(self.odir):
                for f in fs:
                    n = os.path.relpath(os.path.join(d, f), self.odir)
                    real[n] = self.read_real(n)
        bad = []
        for n in sorted(set(real) | set(self.shadow)):
            if n not in real or n not in self.shadow or bytes(self.shadow[n]) != real[n]:
                bad.append(n)
        return bad


class TracedFile:
    def __init__(self, tr, f, name, kind, binary):
        self.tr, self.f, self.name, self.kind, self.binary = tr, f, name, kind, binary
        self.writable = kind != "open-r"
        self._closed = False
        if self.writable:
            tr.open_files.append(self)

    def write(self, data):
        self.tr.op("write", self.name, self, data)
        r = self.f.write(data)
        raw = bytes(data) if self.binary else str(data).encode(getattr(self.f, "encoding", None) or "utf-8")
        if self.kind == "open-rw":
            self.tr.shadow[self.name] = None      # not supported by the shadow: forces a mismatch
        elif self.tr.shadow.get(self.name) is not None:
            self.tr.shadow[self.name] += raw
        return r

    def writelines(self, lines):
        for l in lines:
            self.write(l)

    def close(self):
        if self._closed:
            return
        self.tr.op("close", self.name)
        self._closed = True
        if self in self.tr.open_files:
            self.tr.open_files.remove(self)
        self.f.close()

    def __enter__(self):
        return self

    def __exit__(self, *a):
        self.close()
        return False

    def __iter__(self):
        return iter(self.f)

    def __getattr__(self, k):
        return getattr(self.f, k)


# ---------------------------------------------------------------------------------------------
def build(case):
    """The likelihood and the keyword arguments of one run, from a JSON description."""
    import jax
    import jax.numpy as jnp
    import nifty.re as jft
    d = jnp.asarray(case["data"], dtype=jnp.float64)
    a = float(case["amp"])
    kind = case.get("model", "exp")
    if case.get("tree", False):
        h = len(case["data"]) // 2
        dom = {"a": jft.ShapeWithDtype((h,)), "b": jft.ShapeWithDtype((len(case["data"]) - h,))}

        def fwd(x):
            v = jnp.concatenate([x["a"], x["b"]])
            return jnp.exp(a * v) if kind == "exp" else a * v + 0.1 * v ** 3
        pos0 = jft.Vector({"a": jnp.zeros(h) + case["pos0"], "b": jnp.zeros(len(case["data"]) - h) - case["pos0"]})
    else:
        dom = jft.ShapeWithDtype((len(case["data"]),))

        def fwd(x):
            return jnp.exp(a * x) if kind == "exp" else a * x + 0.1 * x ** 3
        pos0 = jnp.zeros(len(case["data"])) + case["pos0"]
    s = float(case["noise_std_inv"])
    lh = jft.Gaussian(d, noise_cov_inv=lambda x: s * s * x, noise_std_inv=lambda x: s * x).amend(fwd, domain=dom)
    modes = case["sample_modes"]
    nsamp = case["n_samples"]
    quiet = dict(cg_name=None, cg_kwargs=dict())
    kw = dict(
        key=jax.random.PRNGKey(int(case["key"])),
        n_total_iterations=int(case["n_iter"]),
        n_samples=(lambda i: nsamp[min(i, len(nsamp) - 1)]) if isinstance(nsamp, list) else int(nsamp),
        sample_mode=(lambda i: modes[min(i, len(modes) - 1)]) if isinstance(modes, list) else modes,
        draw_linear_kwargs=quiet,
        nonlinearly_update_kwargs=dict(minimize_kwargs=dict(name=None, xtol=1e-4, maxiter=int(case.get("nl_maxiter", 3)), cg_kwargs=dict(name=None))),
        kl_kwargs=dict(minimize_kwargs=dict(name=None, maxiter=int(case.get("kl_maxiter", 4)), cg_kwargs=dict(name=None))),
        jit=bool(case.get("jit", True)),
    )
    if case.get("tree", False) and case.get("point_estimates"):
        kw["point_estimates"] = tuple(case["point_estimates"])
    # documented input forms of `position_or_samples`: a plain position (default), a jft.Samples
    # without samples/keys, a jft.Samples carrying samples and keys
    form = case.get("start_form", "position")
    if form == "samples":
        pos0 = jft.Samples(pos=pos0, samples=None, keys=None)
    elif form == "samples_keys":
        nsm = 2 * max(1, int(nsamp[0] if isinstance(nsamp, list) else nsamp))
        smp = jax.tree_util.tree_map(lambda x: jnp.stack([0.05 * (j + 1) * jnp.ones_like(x) * (-1) ** j for j in range(nsm)]), pos0)
        pos0 = jft.Samples(pos=pos0, samples=smp, keys=jax.random.split(jax.random.PRNGKey(int(case["key"]) + 5), nsm // 2))
    return lh, pos0, kw


def canon(samples, state):
    """Bit-exact canonical form of the returned (samples, state) (config stripped, as in last.pkl)."""
    import jax
    import numpy as np
    leaves, treedef = jax.tree_util.tree_flatten((samples, state._replace(config={})))
    h = hashlib.sha256()
    desc = []
    for l in leaves:
        a = np.asarray(l)
        h.update(("%s|%s|" % (a.dtype, a.shape)).encode())
        h.update(a.tobytes())
        desc.append("%s%s" % (a.dtype, list(a.shape)))
    h.update(str(treedef).encode())
    pos = jax.tree_util.tree_leaves(samples.pos)
    return {"hash": h.hexdigest(), "n_leaves": len(leaves), "nit": int(state.nit),
            "pos": [float(x) for p in pos for x in np.asarray(p).ravel()][:8],
            "leaf_types": desc[:12]}


LOGS = ("minisanity.txt",)
_OPT_VI = {}


def point_variants(kind, name, open_names, level):
    """Crash-point variants at one traced operation: [(mode, frac)] (kill: plain kill before the
    operation; light: + one torn variant of every state-file write; medium: + buffers flushed
    wherever a state file is open; full: flush wherever any file is open, three torn fractions for
    state-file writes, one for log writes)."""
    out = [("kill", 0.0)]
    if level == "kill":
        return out
    state = any(f not in LOGS for f in open_names)
    if open_names and ((level == "medium" and state) or level == "full"):
        out.append(("flush", 0.0))
    if kind == "write":
        if name not in LOGS:
            out += [("torn", fr) for fr in ([0.03, 0.5, 0.97] if level == "full" else [0.5])]
        elif level == "full":
            out.append(("torn", 0.5))
    return out


def snap_name(k, mode, frac):
    return "k%d_%s_%d" % (k, mode, int(round(frac * 100)))


def dir_sha(odir):
    """Content hash of the directory a restart finds (every file byte for byte)."""
    if not os.path.isdir(odir):
        return "no-directory"
    h = hashlib.sha256()
    for d, ds, fs in sorted(os.walk(odir)):
        for f in sorted(fs):
            p = os.path.join(d, f)
            h.update(os.path.relpath(p, odir).encode() + b"\0")
            with open(p, "rb") as fh:
                h.update(fh.read())
            h.update(b"\0")
    return h.hexdigest()


def main():
    if sys.argv[1] == "--batch":
        # several complete (never killed) runs one after the other in this process
        specs = json.load(open(sys.argv[2]))
        rcs = []
        for spec in specs:
            try:
                run_one(spec, in_process=True)
                rcs.append(0)
            except BaseException as e:              # noqa
                print("in-process run failed: %r" % (e,), flush=True)
                rcs.append(1)
        with open(sys.argv[2] + ".rcs", "w") as f:
            json.dump(rcs, f)
        sys.stdout.flush()
        os._exit(0)
    run_one(json.load(open(sys.argv[1])))


def run_one(spec, in_process=False):
    import logging
    logging.disable(logging.CRITICAL)
    import pickle
    import jax
    jax.config.update("jax_enable_x64", True)
    import nifty.re as jft
    odir = spec["odir"]
    lh, pos0, kw = build(spec["case"])
    import nifty
    header = {"resume": spec["resume"], "crash_at": spec["crash_at"], "nifty_file": nifty.__file__}
    # what is on disk before this run starts (only interesting for resumed runs)
    pre = {"files": [], "last": "absent", "dir_sha": dir_sha(odir)}
    if os.path.isdir(odir):
        pre["files"] = sorted(os.path.relpath(os.path.join(d, f), odir) for d, _, fs in os.walk(odir) for f in fs)
    lf = os.path.join(odir, "last.pkl")
    if os.path.isfile(lf):
        try:
            with open(lf, "rb") as f:
                s0, st0 = pickle.load(f)
            pre["last"] = "valid"
            pre["last_state"] = canon(s0, st0)
        except Exception as e:                                    # torn file
            pre["last"] = "torn"
            pre["last_error"] = type(e).__name__
    header["pre"] = pre
    tr = Tracer(odir, int(spec["crash_at"]), spec.get("mode", "kill"), float(spec.get("frac", 0.5)), spec["out"])
    tr.header = header
    # resume: False | True | "ext" (string naming the existing checkpoint case["_ext_path"], outside
    # the output directory) | "missing" (string naming no existing file)
    resume = spec["resume"]
    if resume == "ext":
        resume = spec["case"]["_ext_path"]
        tr.watch[os.path.realpath(resume)] = "@ext"
    elif resume == "missing":
        resume = os.path.join(os.path.dirname(odir.rstrip("/")), "no_such_checkpoint.pkl")
    else:
        resume = bool(resume)
    rule = spec.get("snap_rule")
    if rule:
        def snap_cb(k, kind, name, open_names):
            return [{"mode": m, "frac": fr, "dest": os.path.join(rule["dir"], snap_name(k, m, fr), "odir")}
                    for m, fr in point_variants(kind, name, open_names, rule["level"])]
        tr.snap_cb = snap_cb
    iters = {}
    tr.header["iters"] = iters

    def callback(samples, state):
        # hash of the state after every iteration of this process (called after the files were
        # written; does not touch the file system)
        iters[str(int(state.nit))] = canon(samples, state)["hash"]

    extra = {}
    if in_process:
        # several runs of the same configuration in one process: build the (state-less) OptimizeVI
        # object once -- with exactly the arguments optimize_kl itself would pass -- so that its
        # jitted functions are traced once; really killed runs and their restarts never take this path
        key = json.dumps({k: v for k, v in spec["case"].items() if not k.startswith("_")}, sort_keys=True)
        if key not in _OPT_VI:
            import inspect
            sig_kl = inspect.signature(jft.optimize_kl).parameters
            sig_vi = inspect.signature(jft.OptimizeVI.__init__).parameters
            args = {n: kw.get(n, sig_kl[n].default) for n in sig_vi
                    if n in sig_kl and n not in ("self", "likelihood") and not n.startswith("_")}
            _OPT_VI[key] = jft.OptimizeVI(lh, **args)
        extra["_optimize_vi"] = _OPT_VI[key]
    tr.install()
    try:
        samples, state = jft.optimize_kl(lh, pos0, odir=odir, resume=resume, callback=callback, **extra, **kw)
        out = {"outcome": "ok", "final": canon(samples, state)}
    except BaseException as e:                                    # noqa: resume impossible etc.
        out = {"outcome": "raised", "error": type(e).__name__, "detail": str(e).replace(os.path.realpath(odir), "<odir>").replace(odir, "<odir>")[:200]}
    for t in list(tr.open_files):                                 # files left open by an exception
        try:
            t.f.close()
        except Exception:
            pass
    if out["outcome"] == "ok" and rule:                           # "killed after the last operation"
        tr.snapshot({"mode": "kill", "frac": 0.0,
                     "dest": os.path.join(rule["dir"], snap_name(len(tr.ops), "kill", 0.0), "odir")}, None, None, None)
    out["snaps_taken"] = tr.snaps_taken
    out["shadow_mismatch"] = tr.shadow_mismatch() if out["outcome"] == "ok" else []
    out["last_sha"] = hashlib.sha256(tr.read_real("last.pkl")).hexdigest() if os.path.isfile(lf) else None
    tr.uninstall()
    tr.dump(out)
    sys.stdout.flush()
    if not in_process:
        os._exit(0)


if __name__ == "__main__":
    main()
