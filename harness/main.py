"""./check Cxx [--tier quick|thorough] [--replay path]   (run through the ./check wrapper)."""
import argparse
import importlib
import json
import os
import sys
import traceback

from . import common


def main():
    ap = argparse.ArgumentParser()
    ap.add_argument("prop")
    ap.add_argument("--tier", default=os.environ.get("VERIF_TIER", "quick"), choices=["quick", "thorough"])
    ap.add_argument("--replay", default=None)
    a = ap.parse_args()
    seed = int(os.environ.get("VERIF_SEED", "0") or 0)
    try:
        mod = importlib.import_module("harness.props.%s" % a.prop.lower())
    except ModuleNotFoundError as e:
        print("no check for %s: %s" % (a.prop, e))
        sys.exit(2)
    chk = mod.CHECK
    if a.replay:
        rp = json.load(open(a.replay))
        ctx = common.Ctx(chk.prop, a.tier, seed)
        still = chk.replay(ctx, rp)
        print("replay %s: %s" % (a.replay, "STILL FAILS" if still else "passes"))
        sys.exit(1 if still else 0)
    try:
        rc = common.run_check(chk, a.tier, seed)
    except common.MachineryError as e:
        print("MACHINERY-ERROR property=%s: %s" % (a.prop, e))
        sys.exit(2)
    except Exception:
        traceback.print_exc()
        print("MACHINERY-ERROR property=%s: unexpected exception in the harness" % a.prop)
        sys.exit(2)
    sys.exit(rc)


if __name__ == "__main__":
    main()
