"""Recording fake communicator (thread flavour): an mpi4py-compatible subset with SYNCHRONOUS
(rendezvous) point-to-point sends, as assumed by the model in coq/Base/Trace.v.  Every rank logs
its communication actions: (2, src) receive, (3, dst) send, (4, 0) collective.

Real MPI cannot be loaded in this sandbox (no libmpi); this fake implements the documented
semantics of the calls NIFTy uses.  A blocked rank raises after `timeout` seconds, which is how a
deadlock shows up."""
import queue
import random
import threading
import time


class Deadlock(Exception):
    pass


def _flatview(a):
    """The memory of a buffer argument in memory order, as the upper-case (buffer) calls of mpi4py
    see it: they accept any single-segment buffer (C- or Fortran-contiguous) and transfer its raw
    memory; the array layout is NOT part of the message."""
    import numpy as np
    a = np.asarray(a) if not isinstance(a, np.ndarray) else a
    if a.flags.c_contiguous:
        return a.reshape(-1)
    if a.flags.f_contiguous:
        return a.T.reshape(-1)
    raise ValueError("ndarray is not contiguous")


def _fill(buf, raw):
    v = _flatview(buf)
    if v.size != raw.size or v.dtype.itemsize != raw.dtype.itemsize:
        raise ValueError("message truncated / buffer size mismatch: %d x %d bytes into %d x %d bytes"
                         % (raw.size, raw.dtype.itemsize, v.size, v.dtype.itemsize))
    v[...] = raw.view(v.dtype) if raw.dtype != v.dtype else raw


class World:
    def __init__(self, n, timeout=10.0, jitter_seed=None):
        self.n = n
        self.timeout = timeout
        self.chan = {(a, b): queue.Queue() for a in range(n) for b in range(n)}
        self.ack = {(a, b): queue.Queue() for a in range(n) for b in range(n)}
        self.bar = threading.Barrier(n)
        self.slots = [None] * n
        self.logs = [[] for _ in range(n)]
        self.jit = [random.Random(jitter_seed * 1009 + r) if jitter_seed is not None else None for r in range(n)]


class Comm:
    def __init__(self, w, r):
        self.w, self.r = w, r

    def _jitter(self):
        j = self.w.jit[self.r]
        if j is not None and j.random() < 0.5:
            time.sleep(j.random() * 0.002)

    def Get_rank(self):
        return self.r

    def Get_size(self):
        return self.w.n

    def _get(self, q):
        try:
            return q.get(timeout=self.w.timeout)
        except queue.Empty:
            raise Deadlock("rank %d blocked" % self.r)

    def send(self, obj, dest):
        self._jitter()
        self.w.logs[self.r].append((3, dest))
        self.w.chan[(self.r, dest)].put(obj)
        self._get(self.w.ack[(self.r, dest)])

    def recv(self, source):
        self._jitter()
        self.w.logs[self.r].append((2, source))
        o = self._get(self.w.chan[(source, self.r)])
        self.w.ack[(source, self.r)].put(1)
        return o

    def Send(self, arr, dest):
        self.send(_flatview(arr).copy(), dest)

    def Recv(self, buf, source):
        _fill(buf, self.recv(source))

    def _coll(self, x):
        self._jitter()
        self.w.logs[self.r].append((4, 0))
        self.w.slots[self.r] = x
        try:
            self.w.bar.wait(timeout=self.w.timeout)
            res = list(self.w.slots)
            self.w.bar.wait(timeout=self.w.timeout)
        except threading.BrokenBarrierError:
            raise Deadlock("rank %d blocked in a collective" % self.r)
        return res

    def allgather(self, x):
        return self._coll(x)

    def allreduce(self, x):
        g = self._coll(x)
        out = g[0]
        for y in g[1:]:
            out = out + y
        return out

    def bcast(self, x, root=0):
        return self._coll(x)[root]

    def Bcast(self, buf, root=0):
        g = self._coll(_flatview(buf).copy() if self.r == root else None)
        if self.r != root:
            _fill(buf, g[root])

    def Barrier(self):
        self._coll(None)


def run_threads(n, fn, timeout=10.0, jitter_seed=None):
    """Run fn(comm, rank) on n threads; returns (results, errors, logs)."""
    w = World(n, timeout, jitter_seed)
    res = [None] * n
    err = [None] * n

    def work(r):
        try:
            res[r] = fn(Comm(w, r), r)
        except BaseException as e:  # noqa
            err[r] = "%s: %s" % (type(e).__name__, e)
            try:
                w.bar.abort()
            except Exception:
                pass

    th = [threading.Thread(target=work, args=(r,), daemon=True) for r in range(n)]
    for t in th:
        t.start()
    for t in th:
        t.join(timeout=timeout * 3)
    for r, t in enumerate(th):
        if t.is_alive() and err[r] is None:
            err[r] = "Deadlock: rank %d never returned" % r
    return res, err, w.logs
