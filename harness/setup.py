"""setup_cmd: run every translator once, then build the whole Coq development (full .vo)."""
import importlib
import os
import pkgutil
import sys

from . import common
import harness.props as props


def main():
    for m in sorted(pkgutil.iter_modules(props.__path__), key=lambda m: m.name):
        try:
            mod = importlib.import_module("harness.props." + m.name)
            chk = getattr(mod, "CHECK", None)
            if chk is None:
                continue
            chk.translate(common.Ctx(chk.prop, "quick", 0))
        except common.TranslationError as e:
            print("translator of %s failed closed: %s" % (m.name, e))
        except Exception as e:  # a broken check module must not break the others' setup
            print("setup: %s: %s: %s" % (m.name, type(e).__name__, e))
    with common.CoqLock():
        common.coq_makefile()
        rc, out = common.sh("timeout 3000 make -k -j14 TIMED=", cwd=common.COQ, timeout=3100)
    sys.stdout.write(out[-4000:])
    if rc != 0:
        print("setup: Coq build failed (checks will report it)")
    sys.exit(0)


if __name__ == "__main__":
    main()
