"""Fail-closed translator: small pure Python helpers (ast) -> Gallina text.

Used by C26 (shareRange, _consecutive_length, StatCalculator.add/mean/var, _sample_file_name, the
regular expression and the index extraction of _list_local_sample_files) and by C22 (shareRange).

Supported subset (anything else raises TranslationError):
  statements : docstring, `x = e`, `x op= e`, `self._a = e`, `self._a op= e`, `if/else`,
               `raise Exc` / `raise Exc(...)`, `return e`, `while True:` (fuelled fixpoint)
  expressions: int / float (0., 1.) constants, names, self._attr, self.<property>, + - * / // %,
               min/max, int(<comparison>), comparisons, in / not in, and/or/not, tuples
  types      : Z (Python int), F (the value type of StatCalculator: an abstract field), B, L (list Z)
Functions that may raise or loop return `result T` (NV.C26.Prelude); others are pure."""
import ast
import hashlib

from harness.common import TranslationError

EXN = {"ValueError": "ValueError", "RuntimeError": "RuntimeError", "TypeError": "TypeError"}


def fail(node, msg):
    raise TranslationError("%s (line %s: %s)" % (msg, getattr(node, "lineno", "?"), ast.dump(node)[:160]))


def find_def(tree, name, cls=None):
    body = tree.body
    if cls is not None:
        cs = [n for n in body if isinstance(n, ast.ClassDef) and n.name == cls]
        if len(cs) != 1:
            raise TranslationError("class %s not found exactly once" % cls)
        body = cs[0].body
    fs = [n for n in body if isinstance(n, ast.FunctionDef) and n.name == name]
    if len(fs) != 1:
        raise TranslationError("def %s not found exactly once" % name)
    return fs[0]


def segment(src, node):
    """Source text of a node; a function's docstring is dropped (it is not translated and its
    section titles such as `Parameters` would only confuse a textual audit of the .v files)."""
    if isinstance(node, ast.FunctionDef):
        import copy
        n = copy.deepcopy(node)
        n.body = strip_doc(n.body) or [ast.Pass()]
        n.decorator_list = []
        return ast.unparse(n)
    return ast.get_source_segment(src, node)


def strip_doc(body):
    if body and isinstance(body[0], ast.Expr) and isinstance(body[0].value, ast.Constant) and isinstance(body[0].value.value, str):
        return body[1:]
    return body


class Fn:
    """Translate one function.  env: name -> type; attrs: self attribute -> (field, type);
    props: property name -> (Gallina function returning result, type)."""

    def __init__(self, env, attrs=None, props=None, monadic=True, fuel=None):
        self.env = dict(env)
        self.args = set(dict(env).keys())
        self.attrs = attrs or {}
        self.props = props or {}
        self.monadic = monadic
        self.fuel = fuel
        self.tmp = 0

    # ---- expressions: returns (text, type, binds) ----
    def coerce(self, t, ty, want, node):
        if ty == want:
            return t
        if ty == "Z" and want == "F":
            return "(fofZ %s)" % t
        fail(node, "type %s where %s expected" % (ty, want))

    def expr(self, e):
        if isinstance(e, ast.Constant):
            if isinstance(e.value, bool):
                return ("true" if e.value else "false"), "B", []
            if isinstance(e.value, int):
                return "(%d)" % e.value, "Z", []
            if isinstance(e.value, float) and e.value in (0.0, 1.0):
                return ("fone" if e.value == 1.0 else "fzero"), "F", []
            fail(e, "unsupported constant")
        if isinstance(e, ast.Name):
            if e.id not in self.env:
                fail(e, "unknown name")
            return e.id, self.env[e.id], []
        if isinstance(e, ast.Attribute) and isinstance(e.value, ast.Name) and e.value.id == "self":
            if e.attr in self.attrs:
                f, ty = self.attrs[e.attr]
                return "(%s self)" % f, ty, []
            if e.attr in self.props:
                f, ty = self.props[e.attr]
                self.tmp += 1
                v = "p%d" % self.tmp
                return v, ty, [(v, "%s self" % f)]
            fail(e, "unknown attribute")
        if isinstance(e, ast.BinOp):
            a, ta, ba = self.expr(e.left)
            b, tb, bb = self.expr(e.right)
            op = type(e.op).__name__
            if ta == "Z" and tb == "Z" and op in ("Add", "Sub", "Mult", "FloorDiv", "Mod"):
                f = {"Add": "Z.add", "Sub": "Z.sub", "Mult": "Z.mul", "FloorDiv": "Z.div", "Mod": "Z.modulo"}[op]
                return "(%s %s %s)" % (f, a, b), "Z", ba + bb
            if "F" in (ta, tb) and op in ("Add", "Sub", "Mult", "Div"):
                f = {"Add": "fadd", "Sub": "fsub", "Mult": "fmul", "Div": "fdiv"}[op]
                return "(%s %s %s)" % (f, self.coerce(a, ta, "F", e), self.coerce(b, tb, "F", e)), "F", ba + bb
            fail(e, "unsupported binary operation")
        if isinstance(e, ast.Call) and isinstance(e.func, ast.Name) and not e.keywords:
            fn = e.func.id
            if fn in ("min", "max") and len(e.args) == 2:
                a, ta, ba = self.expr(e.args[0])
                b, tb, bb = self.expr(e.args[1])
                if ta == tb == "Z":
                    return "(Z.%s %s %s)" % (fn, a, b), "Z", ba + bb
            if fn == "int" and len(e.args) == 1:
                a, ta, ba = self.expr(e.args[0])
                if ta == "B":
                    return "(if %s then 1 else 0)" % a, "Z", ba
                if ta == "Z":
                    return a, "Z", ba
            fail(e, "unsupported call")
        if isinstance(e, ast.Compare) and len(e.ops) == 1:
            a, ta, ba = self.expr(e.left)
            b, tb, bb = self.expr(e.comparators[0])
            op = type(e.ops[0]).__name__
            if ta == "Z" and tb == "L" and op in ("In", "NotIn"):
                t = "(memZ %s %s)" % (a, b)
                return (t if op == "In" else "(negb %s)" % t), "B", ba + bb
            if ta == tb == "Z":
                f = {"Lt": "Z.ltb %s %s", "LtE": "Z.leb %s %s", "Gt": "Z.gtb %s %s", "GtE": "Z.geb %s %s",
                     "Eq": "Z.eqb %s %s", "NotEq": "negb (Z.eqb %s %s)"}.get(op)
                if f:
                    return "(" + f % (a, b) + ")", "B", ba + bb
            fail(e, "unsupported comparison")
        if isinstance(e, ast.BoolOp):
            parts = [self.expr(v) for v in e.values]
            if all(p[1] == "B" for p in parts):
                f = "andb" if isinstance(e.op, ast.And) else "orb"
                t = parts[0][0]
                for p in parts[1:]:
                    t = "(%s %s %s)" % (f, t, p[0])
                return t, "B", sum((p[2] for p in parts), [])
            fail(e, "unsupported boolean operation")
        if isinstance(e, ast.UnaryOp) and isinstance(e.op, ast.Not):
            a, ta, ba = self.expr(e.operand)
            if ta == "B":
                return "(negb %s)" % a, "B", ba
        if isinstance(e, ast.Tuple):
            parts = [self.expr(v) for v in e.elts]
            return "(" + ", ".join(p[0] for p in parts) + ")", "(" + "*".join(p[1] for p in parts) + ")", sum((p[2] for p in parts), [])
        fail(e, "unsupported expression")

    def with_binds(self, binds, body):
        if binds and not self.monadic:
            raise TranslationError("property read in a pure function")
        for v, call in reversed(binds):
            body = "bind (%s) (fun %s =>\n%s)" % (call, v, body)
        return body

    # ---- statements (continuation style) ----
    def ret(self, t):
        return "Ret %s" % t if self.monadic else t

    def stmts(self, body, k):
        if not body:
            if k is None:
                raise TranslationError("control reaches the end of the function without return")
            return k
        s, rest = body[0], body[1:]
        if isinstance(s, ast.Return) and s.value is not None:
            t, ty, b = self.expr(s.value)
            self.rtype = ty
            return self.with_binds(b, self.ret(t))
        if isinstance(s, ast.Raise) and self.monadic:
            ex = s.exc.func if isinstance(s.exc, ast.Call) else s.exc
            if isinstance(ex, ast.Name) and ex.id in EXN:
                return "Raise %s" % EXN[ex.id]
            fail(s, "unsupported raise")
        if isinstance(s, (ast.Assign, ast.AugAssign)):
            tgt = s.targets[0] if isinstance(s, ast.Assign) else s.target
            if isinstance(s, ast.Assign) and len(s.targets) != 1:
                fail(s, "multiple targets")
            val = s.value if isinstance(s, ast.Assign) else ast.BinOp(left=tgt, op=s.op, right=s.value)
            t, ty, b = self.expr(val)
            if isinstance(tgt, ast.Name):
                if tgt.id in self.env and self.env[tgt.id] != ty:
                    fail(s, "variable changes type")
                self.env[tgt.id] = ty
                return self.with_binds(b, "let %s := %s in\n%s" % (tgt.id, t, self.stmts(rest, k)))
            if isinstance(tgt, ast.Attribute) and isinstance(tgt.value, ast.Name) and tgt.value.id == "self" and tgt.attr in self.attrs:
                f, fty = self.attrs[tgt.attr]
                if isinstance(val, ast.Name) and val.id in self.args and fty == "F":
                    # the model has value semantics: storing the caller's (possibly mutable, reused)
                    # object itself is not expressible -- the source must store a copy (e.g. 1.*value)
                    fail(s, "attribute %s stores a reference to the argument `%s` (aliasing)" % (tgt.attr, val.id))
                t = self.coerce(t, ty, fty, s)
                return self.with_binds(b, "let self := set_%s self %s in\n%s" % (f, t, self.stmts(rest, k)))
            fail(s, "unsupported assignment target")
        if isinstance(s, ast.If):
            t, ty, b = self.expr(s.test)
            if ty != "B":
                fail(s, "non-boolean condition")
            env0 = dict(self.env)
            th = self.stmts(list(s.body) + rest, k)
            self.env = dict(env0)
            el = self.stmts(list(s.orelse) + rest, k)
            return self.with_binds(b, "if %s then (\n%s\n) else (\n%s\n)" % (t, th, el))
        if isinstance(s, ast.While) and self.monadic and isinstance(s.test, ast.Constant) and s.test.value is True and not s.orelse:
            if rest:
                fail(s, "statements after `while True`")
            if self.fuel is None:
                raise TranslationError("no fuel expression given for a loop")
            vs = []
            for n in ast.walk(ast.Module(body=s.body, type_ignores=[])):
                if isinstance(n, (ast.Assign, ast.AugAssign)):
                    tg = n.targets[0] if isinstance(n, ast.Assign) else n.target
                    if isinstance(tg, ast.Name) and tg.id not in vs:
                        vs.append(tg.id)
                if isinstance(n, (ast.Break, ast.Continue, ast.For, ast.Try, ast.With)):
                    fail(n, "unsupported statement in loop")
            for v in vs:
                if v not in self.env:
                    fail(s, "loop variable %s not initialised before the loop" % v)
            args = " ".join(vs)
            sig = " ".join("(%s : %s)" % (v, {"Z": "Z", "F": "F"}[self.env[v]]) for v in vs)
            inner = self.stmts(list(s.body), "loop fuel %s" % args)
            return ("(fix loop (fuel : nat) %s {struct fuel} : result _ :=\n match fuel with O => OutOfFuel | S fuel =>\n%s\n end) (%s) %s"
                    % (sig, inner, self.fuel, args))
        if isinstance(s, ast.Expr) and isinstance(s.value, ast.Constant) and isinstance(s.value.value, str):
            return self.stmts(rest, k)
        fail(s, "unsupported statement")


def comment(src_text):
    return "(* " + src_text.replace("(*", "( *").replace("*)", "* )") + " *)\n"


def tr_function(src, tree, name, cname, argtypes, monadic, fuel=None, cls=None):
    """A module-level or static function over Z / list Z."""
    fd = find_def(tree, name, cls)
    args = [a.arg for a in fd.args.args]
    if args != [a for a, _ in argtypes] or fd.args.vararg or fd.args.kwarg or fd.args.kwonlyargs or fd.args.defaults:
        raise TranslationError("%s: unexpected signature %r" % (name, args))
    fn = Fn(dict(argtypes), monadic=monadic, fuel=fuel)
    body = fn.stmts(strip_doc(fd.body), None)
    ty = {"Z": "Z", "L": "list Z"}
    sig = " ".join("(%s : %s)" % (a, ty[t]) for a, t in argtypes)
    return comment(segment(src, fd)) + "Definition %s %s :=\n%s.\n" % (cname, sig, body), segment(src, fd)


def tr_method(src, tree, cls, name, cname, extra_args, attrs, props, end_returns_self):
    """A method / property of a class whose state is the record `sc` (argument `self`)."""
    fd = find_def(tree, name, cls)
    args = [a.arg for a in fd.args.args]
    if args != ["self"] + [a for a, _ in extra_args]:
        raise TranslationError("%s.%s: unexpected signature %r" % (cls, name, args))
    fn = Fn(dict(extra_args), attrs=attrs, props=props, monadic=True)
    body = fn.stmts(strip_doc(fd.body), "Ret self" if end_returns_self else None)
    sig = " ".join("(%s : %s)" % (a, t) for a, t in extra_args)
    return comment(segment(src, fd)) + "Definition %s (self : sc) %s :=\nlet _ := O in\n%s.\n" % (cname, sig, body), segment(src, fd)


# ---- string-valued pieces of sample_list.py ----

def fstring_parts(node, argname):
    """f"{arg}lit{arg2}lit" -> list of ('var', name) / ('lit', text)."""
    if not isinstance(node, ast.JoinedStr):
        fail(node, "f-string expected")
    out = []
    for v in node.values:
        if isinstance(v, ast.Constant) and isinstance(v.value, str):
            out.append(("lit", v.value))
        elif isinstance(v, ast.FormattedValue) and isinstance(v.value, ast.Name) and v.conversion == -1 and v.format_spec is None:
            out.append(("var", v.value.id))
        else:
            fail(node, "unsupported f-string component")
    return out


def coq_str(s):
    if any(ord(c) < 32 or ord(c) > 126 or c == '"' for c in s):
        raise TranslationError("unsupported character in string literal %r" % s)
    return '(str "%s"%%string)' % s


def regex_items(text):
    """The constant tail of the sample-file regular expression -> list of ritem constructors."""
    out = []
    i = 0
    special = set("*+?{}()|^[]\\")
    while i < len(text):
        c = text[i]
        if text.startswith("[0-9]+", i):
            out.append("RDigits1")
            i += 6
        elif text.startswith("\\d+", i):
            out.append("RDigits1")
            i += 3
        elif c == "\\" and i + 1 < len(text) and text[i + 1] in ".-_":
            out.append('RLit "%s"%%char' % text[i + 1])
            i += 2
        elif c == ".":
            out.append("RAny")
            i += 1
        elif c == "$" and i == len(text) - 1:
            out.append("REnd")
            i += 1
        elif c in special or c == "$" or c == '"' or not (32 <= ord(c) < 127):
            raise TranslationError("unsupported regular-expression syntax at %r" % text[i:])
        else:
            out.append('RLit "%s"%%char' % c)
            i += 1
    return out


def sha(segments):
    return hashlib.sha256("\n".join(segments).encode()).hexdigest()
