"""Fail-closed translator: short Python formulas (NumPy / JAX / NIFTy field algebra) -> real
expression IR -> { Gallina text over R (Coquelicot/Reals), independent Python rendering }.

Used by C30 (prior transforms), C11 (classic likelihood energies), C12 (JAX likelihoods).

IR (nested tuples):
  ("c", Fraction)                 rational constant (decimal meaning of the literal's text)
  ("v", name)                     real variable (a parameter of the generated Definition)
  ("+"|"-"|"*"|"/", a, b)         arithmetic
  ("neg", a)
  ("powi", a, n)                  a ^ n,  n a non-negative Python int
  ("f", sym, [args])              whitelisted Coq real function (exp ln sqrt tanh atan Rabs ...)
  ("free", sym, [args])           application of a free function symbol (Section Variable of the
                                  generated file: Phi, phi, PhiInv, ...)
  ("ind", op, a, b)               1 if a op b else 0           op in lt gt le ge
  ("where", op, a, b, x, y)       x if a op b else y
  ("tuple", [(tag, ir), ...])     several results (returned tuples, keyed operator sums)
  ("poison", reason)              a value the translator could not translate; an error as soon as
                                  it flows into a requested output (fail closed on data flow)

Everything the front-end does not recognise raises TranslationError (control flow) or yields
poison (values).  Both emitters work from the same IR; the Python rendering is what the
correspondence step evaluates numerically against the source function.
"""
import ast
import math
import os
from fractions import Fraction

try:
    from harness.common import TranslationError
except Exception:  # pragma: no cover
    class TranslationError(Exception):
        pass


# --------------------------------------------------------------------------------------------------
# IR helpers
# --------------------------------------------------------------------------------------------------

def C_(x):
    return ("c", Fraction(x))


def V(n):
    return ("v", n)


def F(sym, *args):
    return ("f", sym, list(args))


def is_poison(ir):
    return ir[0] == "poison"


def _first_poison(*irs):
    for i in irs:
        if isinstance(i, tuple) and i and i[0] == "poison":
            return i
    return None


def mk(op, *args):
    p = _first_poison(*args)
    if p is not None:
        return p
    for a in args:
        if isinstance(a, tuple) and a and a[0] == "cx":
            return ("poison", "complex value in a real-only operation %s" % op)
    return (op,) + tuple(args)


def mkf(kind, sym, args):
    p = _first_poison(*args)
    if p is not None:
        return p
    for a in args:
        if a[0] == "cx":
            return ("poison", "complex argument of %s" % sym)
    return (kind, sym, list(args))


# ---- complex values of the front-end: ("cx", re_ir, im_ir); never reach the emitters ----------------
def is_cx(a):
    return a[0] == "cx"


def cx(a):
    return a if is_cx(a) else ("cx", a, ("c", Fraction(0)))


def _is0(a):
    return a[0] == "c" and a[1] == 0


def s_add(a, b):
    return b if _is0(a) else a if _is0(b) else mk("+", a, b)


def s_sub(a, b):
    return a if _is0(b) else mk("neg", b) if _is0(a) else mk("-", a, b)


def s_mul(a, b):
    return ("c", Fraction(0)) if (_is0(a) or _is0(b)) else mk("*", a, b)


def c_arith(sym, a, b):
    """complex (+ - *) and division by a real; a or b is a cx node."""
    if sym == "/" and not is_cx(b):
        a = cx(a)
        return ("cx", mk("/", a[1], b), ("c", Fraction(0)) if _is0(a[2]) else mk("/", a[2], b))
    if sym == "/":
        return ("poison", "division by a complex value")
    a, b = cx(a), cx(b)
    if sym == "+":
        return ("cx", s_add(a[1], b[1]), s_add(a[2], b[2]))
    if sym == "-":
        return ("cx", s_sub(a[1], b[1]), s_sub(a[2], b[2]))
    return ("cx", s_sub(s_mul(a[1], b[1]), s_mul(a[2], b[2])), s_add(s_mul(a[1], b[2]), s_mul(a[2], b[1])))


def c_conj(a):
    a = cx(a)
    return ("cx", a[1], ("c", Fraction(0)) if _is0(a[2]) else mk("neg", a[2]))


def c_real(a):
    return a[1] if is_cx(a) else a


def c_imag(a):
    return a[2] if is_cx(a) else ("c", Fraction(0))


def vdot(a, b):
    """conj(a) * b per pixel (the sum over pixels is the caller's: energies are sums of per-pixel terms)."""
    p = _first_poison(a, b)
    if p is not None:
        return p
    if is_cx(a) or is_cx(b):
        return c_arith("*", c_conj(a), b)
    return mk("*", a, b)


COQ_FUN = {"exp": "exp", "ln": "ln", "sqrt": "sqrt", "tanh": "tanh", "atan": "atan", "Rabs": "Rabs",
           "sin": "sin", "cos": "cos", "sinh": "sinh", "cosh": "cosh"}
PY_FUN = {"exp": "math.exp", "ln": "math.log", "sqrt": "math.sqrt", "tanh": "math.tanh",
          "atan": "math.atan", "Rabs": "abs", "sin": "math.sin", "cos": "math.cos",
          "sinh": "math.sinh", "cosh": "math.cosh"}
CMP_COQ = {"lt": "ind_lt", "gt": "ind_gt", "le": "ind_le", "ge": "ind_ge"}
WH_COQ = {"lt": "where_lt", "gt": "where_gt", "le": "where_le", "ge": "where_ge"}
CMP_PY = {"lt": "<", "gt": ">", "le": "<=", "ge": ">="}

# Coq preamble shared by all generated files (pure definitions, no proofs).
COQ_PREAMBLE = """From Coq Require Import Reals.
Require Import NV.Base.RealExpr.
Open Scope R_scope.
"""


def free_vars(ir, acc=None):
    acc = set() if acc is None else acc
    k = ir[0]
    if k == "v":
        acc.add(ir[1])
    elif k in ("+", "-", "*", "/"):
        free_vars(ir[1], acc), free_vars(ir[2], acc)
    elif k == "neg":
        free_vars(ir[1], acc)
    elif k == "powi":
        free_vars(ir[1], acc)
    elif k in ("f", "free"):
        for a in ir[2]:
            free_vars(a, acc)
    elif k == "ind":
        free_vars(ir[2], acc), free_vars(ir[3], acc)
    elif k == "where":
        for a in ir[2:6]:
            free_vars(a, acc)
    elif k == "tuple":
        for _, a in ir[1]:
            free_vars(a, acc)
    return acc


def free_syms(ir, acc=None):
    acc = set() if acc is None else acc
    k = ir[0]
    if k in ("+", "-", "*", "/"):
        free_syms(ir[1], acc), free_syms(ir[2], acc)
    elif k in ("neg", "powi"):
        free_syms(ir[1], acc)
    elif k in ("f", "free"):
        if k == "free":
            acc.add((ir[1], len(ir[2])))
        for a in ir[2]:
            free_syms(a, acc)
    elif k == "ind":
        free_syms(ir[2], acc), free_syms(ir[3], acc)
    elif k == "where":
        for a in ir[2:6]:
            free_syms(a, acc)
    elif k == "tuple":
        for _, a in ir[1]:
            free_syms(a, acc)
    return acc


def to_coq(ir):
    k = ir[0]
    if k == "c":
        fr = ir[1]
        if fr.denominator == 1:
            return "%d" % fr.numerator if fr.numerator >= 0 else "(- %d)" % (-fr.numerator)
        if fr.numerator >= 0:
            return "(%d / %d)" % (fr.numerator, fr.denominator)
        return "(- %d / %d)" % (-fr.numerator, fr.denominator)
    if k == "v":
        return coq_ident(ir[1])
    if k in ("+", "-", "*", "/"):
        return "(%s %s %s)" % (to_coq(ir[1]), k, to_coq(ir[2]))
    if k == "neg":
        return "(- %s)" % to_coq(ir[1])
    if k == "powi":
        return "(%s ^ %d)" % (to_coq(ir[1]), ir[2])
    if k == "f":
        return "(%s %s)" % (COQ_FUN[ir[1]], " ".join(to_coq(a) for a in ir[2]))
    if k == "free":
        return "(%s %s)" % (ir[1], " ".join(to_coq(a) for a in ir[2]))
    if k == "ind":
        return "(%s %s %s)" % (CMP_COQ[ir[1]], to_coq(ir[2]), to_coq(ir[3]))
    if k == "where":
        return "(%s %s %s %s %s)" % (WH_COQ[ir[1]], to_coq(ir[2]), to_coq(ir[3]), to_coq(ir[4]), to_coq(ir[5]))
    if k == "poison":
        raise TranslationError("untranslatable value reaches an output: " + ir[1])
    raise TranslationError("to_coq: node %r" % (k,))


def to_py(ir):
    k = ir[0]
    if k == "c":
        fr = ir[1]
        return "(%d.0/%d.0)" % (fr.numerator, fr.denominator) if fr.denominator != 1 else "(%d.0)" % fr.numerator
    if k == "v":
        return coq_ident(ir[1])
    if k == "-" and ir[1][0] == "f" and ir[1][1] == "exp" and ir[2] == ("c", Fraction(1)):
        return "math.expm1(%s)" % to_py(ir[1][2][0])
    if k in ("+", "-", "*", "/"):
        return "(%s %s %s)" % (to_py(ir[1]), k, to_py(ir[2]))
    if k == "neg":
        return "(- %s)" % to_py(ir[1])
    if k == "powi":
        return "(%s ** %d)" % (to_py(ir[1]), ir[2])
    if k == "f":
        # ln (1 + x) and exp x - 1 are rendered with the cancellation-free library functions (same real
        # function, better float64 conditioning for tiny x; the sources use log1p / expm1 there)
        if ir[1] == "ln" and ir[2][0][0] == "+" and ir[2][0][1] == ("c", Fraction(1)):
            return "math.log1p(%s)" % to_py(ir[2][0][2])
        return "%s(%s)" % (PY_FUN[ir[1]], ", ".join(to_py(a) for a in ir[2]))
    if k == "free":
        return "%s(%s)" % (ir[1], ", ".join(to_py(a) for a in ir[2]))
    if k == "ind":
        return "(1.0 if %s %s %s else 0.0)" % (to_py(ir[2]), CMP_PY[ir[1]], to_py(ir[3]))
    if k == "where":
        return "(%s if %s %s %s else %s)" % (to_py(ir[4]), to_py(ir[2]), CMP_PY[ir[1]], to_py(ir[3]), to_py(ir[5]))
    if k == "poison":
        raise TranslationError("untranslatable value reaches an output: " + ir[1])
    raise TranslationError("to_py: node %r" % (k,))


def coq_ident(n):
    s = n.replace("self._", "").replace("self.", "").replace(".", "_")
    s = s.lstrip("_") or "x"
    if s in ("exp", "ln", "sqrt", "in", "at", "as", "fun", "let", "end", "mod", "if", "then", "else", "match", "with", "forall", "exists", "R"):
        s = s + "_"
    return s


# --------------------------------------------------------------------------------------------------
# Front-end
# --------------------------------------------------------------------------------------------------

def dotted(e):
    """a.b.c -> 'a.b.c' for Name/Attribute chains, else None."""
    if isinstance(e, ast.Name):
        return e.id
    if isinstance(e, ast.Attribute):
        b = dotted(e.value)
        return None if b is None else b + "." + e.attr
    return None


def un(sym):
    return lambda tr, args, kw: _arity(args, 1) and mkf("f", sym, args)


def _arity(args, n):
    if len(args) != n:
        raise TranslationError("arity: expected %d arguments, got %d" % (n, len(args)))
    return True


def free(sym, n=1):
    return lambda tr, args, kw: _arity(args, n) and mkf("free", sym, args)


def _log1p(tr, args, kw):
    _arity(args, 1)
    return mkf("f", "ln", [mk("+", C_(1), args[0])])


def _expm1(tr, args, kw):
    _arity(args, 1)
    return mk("-", mkf("f", "exp", args), C_(1))


def _recip(tr, args, kw):
    _arity(args, 1)
    return mk("/", C_(1), args[0])


def _ident(tr, args, kw):
    _arity(args, 1)
    return args[0]


def _square(tr, args, kw):
    _arity(args, 1)
    return mk("powi", args[0], 2)


# NumPy / jax.numpy ufunc names -> IR builders (the whitelist).
UFUNCS = {
    "exp": un("exp"), "log": un("ln"), "sqrt": un("sqrt"), "tanh": un("tanh"), "arctan": un("atan"),
    "abs": un("Rabs"), "absolute": un("Rabs"), "sin": un("sin"), "cos": un("cos"),
    "sinh": un("sinh"), "cosh": un("cosh"),
    "log1p": _log1p, "expm1": _expm1, "reciprocal": _recip, "real": _ident, "square": _square,
    "asarray": lambda tr, args, kw: args[0],
}


def np_funcs(prefixes=("np", "jnp", "numpy")):
    d = {}
    for p in prefixes:
        for k, v in UFUNCS.items():
            d["%s.%s" % (p, k)] = v
        d["%s.where" % p] = _where
    return d


def _where(tr, args, kw):
    """np.where(a op b, x, y); the condition arrives as an ("ind", op, a, b) node."""
    _arity(args, 3)
    c = args[0]
    p = _first_poison(*args)
    if p is not None:
        return p
    if c[0] != "ind":
        raise TranslationError("np.where: condition is not a comparison")
    return ("where", c[1], c[2], c[3], args[1], args[2])


class Cfg:
    """What a front-end run may use.
    funcs   : dotted callee name -> builder(tr, args_ir, kwargs_ir)
    methods : method name -> builder(tr, obj_ir, args_ir, raw_args_ast)   (field algebra: x.log() ...)
    attrs   : attribute name -> builder(tr, obj_ir)                        (x.real, x.val ...)
    inline  : name -> ast.FunctionDef of source functions that may be called (inlined)
    flags   : source text of an `if` test -> bool (static branch selection, recorded)
    keys    : names K such that `K.adjoint @ E` tags E with K (keyed operator sums)
    """

    def __init__(self, funcs=None, methods=None, attrs=None, inline=None, flags=None, keys=None):
        self.funcs = dict(funcs or {})
        self.methods = dict(methods or {})
        self.attrs = dict(attrs or {})
        self.inline = dict(inline or {})
        self.flags = dict(flags or {})
        self.keys = set(keys or [])


class Alias:
    """A local callable: partial(tree_map, f) / lambda / def."""

    def __init__(self, kind, payload):
        self.kind, self.payload = kind, payload


class Run:
    def __init__(self, cfg, src_name=""):
        self.cfg = cfg
        self.src_name = src_name
        self.guards = []        # source text of `if <test>: raise` preconditions that were skipped
        self.used_flags = {}
        self.depth = 0

    # ---- expressions -------------------------------------------------------------------------
    def expr(self, e, env):
        if isinstance(e, ast.Constant):
            if isinstance(e.value, bool) or not isinstance(e.value, (int, float)):
                return ("poison", "constant %r" % (e.value,))
            if isinstance(e.value, float) and (math.isinf(e.value) or math.isnan(e.value)):
                return ("poison", "non-finite constant")
            txt = repr(e.value)
            return ("c", Fraction(txt))
        d = dotted(e)
        if d is not None and d in env:
            v = env[d]
            if isinstance(v, Alias):
                return ("poison", "callable %s used as a value" % d)
            return v
        if isinstance(e, ast.Name):
            return ("poison", "unbound name %s" % e.id)
        if isinstance(e, ast.Attribute):
            if e.attr in self.cfg.attrs:
                o = self.expr(e.value, env)
                if is_poison(o):
                    return o
                return self.cfg.attrs[e.attr](self, o)
            return ("poison", "attribute %s" % (d or e.attr))
        if isinstance(e, ast.BinOp):
            return self.binop(e, env)
        if isinstance(e, ast.UnaryOp):
            if isinstance(e.op, ast.USub):
                a = self.expr(e.operand, env)
                if a[0] == "c":
                    return ("c", -a[1])
                if a[0] == "cx":
                    return c_arith("-", ("c", Fraction(0)), a)
                return mk("neg", a)
            if isinstance(e.op, ast.UAdd):
                return self.expr(e.operand, env)
            return ("poison", "unary %s" % type(e.op).__name__)
        if isinstance(e, ast.Compare):
            if len(e.ops) != 1:
                return ("poison", "chained comparison")
            op = {ast.Lt: "lt", ast.Gt: "gt", ast.LtE: "le", ast.GtE: "ge"}.get(type(e.ops[0]))
            if op is None:
                return ("poison", "comparison %s" % type(e.ops[0]).__name__)
            a, b = self.expr(e.left, env), self.expr(e.comparators[0], env)
            p = _first_poison(a, b)
            if p is not None:
                return p
            return ("ind", op, a, b)
        if isinstance(e, ast.IfExp):
            t = ast.unparse(e.test)
            if t in self.cfg.flags:
                self.used_flags[t] = self.cfg.flags[t]
                return self.expr(e.body if self.cfg.flags[t] else e.orelse, env)
            return ("poison", "conditional expression on %s" % t)
        if isinstance(e, ast.Tuple):
            items = [(str(i), self.expr(x, env)) for i, x in enumerate(e.elts)]
            return ("tuple", items)
        if isinstance(e, ast.Subscript):
            # primals[0] / x[self._kr]: looked up as a bound dotted name "primals[0]"
            key = ast.unparse(e)
            if key in env:
                return env[key]
            b = self.expr(e.value, env)
            if b[0] == "tuple" and isinstance(e.slice, ast.Constant) and isinstance(e.slice.value, int):
                return b[1][e.slice.value][1]
            return ("poison", "subscript %s" % key)
        if isinstance(e, ast.Call):
            return self.call(e, env)
        return ("poison", "expression %s" % type(e).__name__)

    def binop(self, e, env):
        if isinstance(e.op, ast.Pow):
            a = self.expr(e.left, env)
            ex = e.right
            neg = False
            if isinstance(ex, ast.UnaryOp) and isinstance(ex.op, ast.USub):
                neg, ex = True, ex.operand
            if isinstance(ex, ast.Constant) and isinstance(ex.value, int) and not isinstance(ex.value, bool) and ex.value >= 0:
                r = mk("powi", a, ex.value)
                return mk("/", C_(1), r) if neg else r
            if isinstance(ex, ast.Constant) and ex.value == 0.5:
                r = mkf("f", "sqrt", [a])
                return mk("/", C_(1), r) if neg else r
            if isinstance(ex, ast.Constant) and isinstance(ex.value, float) and ex.value == int(ex.value) and ex.value >= 0:
                r = mk("powi", a, int(ex.value))
                return mk("/", C_(1), r) if neg else r
            # base ** (expression): only constant base sqrt(2)-style powers with a flag-decided exponent
            b = self.expr(e.right, env)
            if b[0] == "c" and b[1].denominator == 1 and b[1] >= 0:
                return mk("powi", a, int(b[1]))
            return ("poison", "general power %s" % ast.unparse(e))
        if isinstance(e.op, ast.MatMult):
            # K.adjoint @ E   ->  component of a keyed sum
            if isinstance(e.left, ast.Attribute) and e.left.attr == "adjoint":
                k = dotted(e.left.value)
                if k in self.cfg.keys:
                    return ("tuple", [(k, self.expr(e.right, env))])
            return ("poison", "matmul %s" % ast.unparse(e)[:60])
        a, b = self.expr(e.left, env), self.expr(e.right, env)
        sym = {ast.Add: "+", ast.Sub: "-", ast.Mult: "*", ast.Div: "/"}.get(type(e.op))
        if sym is None:
            return ("poison", "binary operator %s" % type(e.op).__name__)
        p = _first_poison(a, b)
        if p is not None:
            return p
        if a[0] == "tuple" or b[0] == "tuple":
            if sym == "+" and a[0] == "tuple" and b[0] == "tuple":
                return ("tuple", a[1] + b[1])        # keyed operator sum / tuple concatenation
            return ("poison", "arithmetic on a tuple")
        if a[0] == "cx" or b[0] == "cx":
            return c_arith(sym, a, b)
        if a[0] == "c" and b[0] == "c" and sym in ("+", "-", "*"):
            # constant folding (exact rationals); needed for flag-dependent exponents such as
            # sqrt(2) ** (1 + self.iscomplex)
            return ("c", a[1] + b[1] if sym == "+" else a[1] - b[1] if sym == "-" else a[1] * b[1])
        return (sym, a, b)

    def call(self, e, env):
        fn = dotted(e.func)
        kw_ast = {k.arg: k.value for k in e.keywords if k.arg is not None}
        if any(k.arg is None for k in e.keywords):
            return ("poison", "**kwargs call")
        # local aliases (partial(tree_map, f), lambda, nested def)
        if fn is not None and fn in env and isinstance(env[fn], Alias):
            return self.apply_alias(env[fn], e, env)
        # tree_map(f, x, ...)
        if fn in ("tree_map", "jax.tree_util.tree_map", "jax.tree.map"):
            f = e.args[0]
            fake = ast.Call(func=f, args=list(e.args[1:]), keywords=[])
            return self.call(ast.copy_location(fake, e), env)
        if fn == "partial" or fn == "functools.partial":
            # partial(f, **kw)(x) is handled where the result is *applied*; as a value it is an alias
            return ("poison", "partial object used as a value")
        if isinstance(e.func, ast.Call):
            inner = e.func
            ifn = dotted(inner.func)
            if ifn in ("partial", "functools.partial"):
                # partial(g, a.., k=..)(x..)  ==  g(a.., x.., k=..)
                fake = ast.Call(func=inner.args[0], args=list(inner.args[1:]) + list(e.args),
                                keywords=list(inner.keywords) + list(e.keywords))
                return self.call(ast.copy_location(fake, e), env)
            if ifn == "type" and len(e.args) == 1 and not e.keywords:
                # type(primals)(res): re-wrapping of a result in the container type of the input
                return self.expr(e.args[0], env)
        if isinstance(e.func, ast.Lambda):
            return self.apply_lambda(e.func, e.args, env)
        if fn is not None and fn in self.cfg.funcs:
            args = [self.expr(a, env) for a in e.args]
            kws = {k: self.expr(v, env) for k, v in kw_ast.items()}
            return self.cfg.funcs[fn](self, args, kws)
        if fn is not None and fn in self.cfg.inline:
            return self.inline_call(self.cfg.inline[fn], e, env)
        # method of a translatable object: obj.m(args)
        if isinstance(e.func, ast.Attribute) and e.func.attr in self.cfg.methods:
            o = self.expr(e.func.value, env)
            if is_poison(o):
                return o
            args = [self.expr(a, env) for a in e.args]
            return self.cfg.methods[e.func.attr](self, o, args, e.args)
        return ("poison", "call of %s" % (fn or ast.unparse(e.func)[:40]))

    def apply_alias(self, al, e, env):
        if al.kind == "map":           # partial(tree_map, f)
            fake = ast.Call(func=al.payload, args=list(e.args), keywords=list(e.keywords))
            return self.call(ast.copy_location(fake, e), env)
        if al.kind == "lambda":
            return self.apply_lambda(al.payload, e.args, env)
        if al.kind == "def":
            return self.inline_call(al.payload, e, env)
        return ("poison", "alias kind")

    def apply_lambda(self, lam, args, env):
        names = [a.arg for a in lam.args.args]
        if len(names) != len(args) or lam.args.vararg or lam.args.kwarg or lam.args.kwonlyargs:
            return ("poison", "lambda signature")
        env2 = dict(env)
        for n, a in zip(names, args):
            env2[n] = self.expr(a, env)
        return self.expr(lam.body, env2)

    def inline_call(self, fd, e, env):
        self.depth += 1
        if self.depth > 8:
            raise TranslationError("inlining too deep")
        pos = [a.arg for a in fd.args.posonlyargs + fd.args.args]
        kwo = [a.arg for a in fd.args.kwonlyargs]
        env2 = {k: v for k, v in env.items() if isinstance(v, Alias) and k not in pos + kwo}
        # module-level aliases stay visible; values do not leak into the callee
        if len(e.args) > len(pos):
            raise TranslationError("too many positional arguments for %s" % fd.name)
        for n, a in zip(pos, e.args):
            env2[n] = self.expr(a, env)
        for k in e.keywords:
            if k.arg not in pos + kwo:
                raise TranslationError("unknown keyword %s for %s" % (k.arg, fd.name))
            env2[k.arg] = self.expr(k.value, env)
        # defaults
        defaults = dict(zip(pos[len(pos) - len(fd.args.defaults):], fd.args.defaults))
        for a, dflt in zip(fd.args.kwonlyargs, fd.args.kw_defaults):
            if dflt is not None:
                defaults[a.arg] = dflt
        for n in pos + kwo:
            if n not in env2:
                if n in defaults:
                    env2[n] = self.expr(defaults[n], {})
                else:
                    raise TranslationError("missing argument %s for %s" % (n, fd.name))
        r = self.body(fd.body, env2)
        self.depth -= 1
        if r is None:
            raise TranslationError("inlined function %s has no translatable return" % fd.name)
        return r

    # ---- statements --------------------------------------------------------------------------
    def body(self, stmts, env, bound=()):
        """Execute statements symbolically; returns the IR of the first `return` reached on the
        statically selected path, or None.  `bound`: names whose assignments are overridden by the
        caller-supplied inputs (recorded in the spec, see notes)."""
        for s in stmts:
            if isinstance(s, (ast.Import, ast.ImportFrom, ast.Pass)):
                continue
            if isinstance(s, ast.Expr):
                continue        # bare calls / docstrings carry no data flow into the outputs
            if isinstance(s, ast.FunctionDef):
                env[s.name] = Alias("def", s)
                continue
            if isinstance(s, ast.Assign):
                self.assign(s, env, bound)
                continue
            if isinstance(s, ast.AugAssign):
                t = dotted(s.target)
                if t is None:
                    raise TranslationError("augmented assignment target %s" % ast.unparse(s.target))
                if t in bound:
                    continue
                sym = {ast.Add: "+", ast.Sub: "-", ast.Mult: "*", ast.Div: "/"}.get(type(s.op))
                cur = env.get(t, ("poison", "augmented assignment to unbound %s" % t))
                if sym is None or isinstance(cur, Alias):
                    env[t] = ("poison", "augmented assignment %s" % ast.unparse(s)[:50])
                else:
                    env[t] = mk(sym, cur, self.expr(s.value, env))
                continue
            if isinstance(s, ast.If):
                t = ast.unparse(s.test)
                if t in self.cfg.flags:
                    self.used_flags[t] = self.cfg.flags[t]
                    r = self.body(s.body if self.cfg.flags[t] else s.orelse, env, bound)
                    if r is not None:
                        return r
                    continue
                if all(isinstance(x, ast.Raise) for x in s.body) and not s.orelse:
                    self.guards.append("not (%s)" % t)
                    continue
                raise TranslationError("%s: `if %s` is neither a raise-guard nor a declared flag" % (self.src_name, t))
            if isinstance(s, ast.Return):
                if s.value is None:
                    raise TranslationError("bare return")
                return self.expr(s.value, env)
            if isinstance(s, ast.Raise):
                raise TranslationError("%s: unconditional raise on the selected path" % self.src_name)
            raise TranslationError("%s: statement %s" % (self.src_name, type(s).__name__))
        return None

    def assign(self, s, env, bound):
        if len(s.targets) != 1:
            # a = b = value
            vals = self.value_or_alias(s.value, env)
            for t in s.targets:
                self.bind(t, vals, env, bound)
            return
        self.bind(s.targets[0], self.value_or_alias(s.value, env), env, bound)

    def value_or_alias(self, v, env):
        if isinstance(v, ast.Lambda):
            return Alias("lambda", v)
        if isinstance(v, ast.Call) and dotted(v.func) in ("partial", "functools.partial") and v.args \
                and dotted(v.args[0]) in ("tree_map", "jax.tree_util.tree_map") and len(v.args) == 2 and not v.keywords:
            return Alias("map", v.args[1])
        return self.expr(v, env)

    def bind(self, target, val, env, bound):
        if isinstance(target, ast.Tuple):
            if isinstance(val, tuple) and val[0] == "tuple" and len(val[1]) == len(target.elts):
                for t, (_, x) in zip(target.elts, val[1]):
                    self.bind(t, x, env, bound)
            else:
                for t in target.elts:
                    self.bind(t, ("poison", "tuple unpacking of an untranslated value"), env, bound)
            return
        t = dotted(target)
        if t is None:
            t = ast.unparse(target)
        if t in bound:
            return
        env[t] = val


# --------------------------------------------------------------------------------------------------
# Source access
# --------------------------------------------------------------------------------------------------

class Source:
    def __init__(self, path, root=None):
        self.path = path
        # name used in generated comments / messages: relative to the tree under test, so that the
        # generated text does not depend on where the tree lives
        self.rel = os.path.relpath(path, root) if root else path
        try:
            self.text = open(path).read()
        except OSError as e:
            raise TranslationError("cannot read %s: %s" % (path, e))
        try:
            self.tree = ast.parse(self.text)
        except SyntaxError as e:
            raise TranslationError("cannot parse %s: %s" % (path, e))

    def find(self, qual):
        """'func' or 'Class.method' -> ast.FunctionDef (fail closed when missing / ambiguous)."""
        parts = qual.split(".")
        nodes = self.tree.body
        found = None
        for i, p in enumerate(parts):
            cands = [n for n in nodes if isinstance(n, (ast.FunctionDef, ast.ClassDef)) and n.name == p]
            if len(cands) != 1:
                raise TranslationError("%s: %d definitions named %s" % (self.path, len(cands), qual))
            found = cands[0]
            nodes = found.body
        if not isinstance(found, ast.FunctionDef):
            raise TranslationError("%s: %s is not a function" % (self.path, qual))
        return found

    def module_aliases(self):
        """Module-level `name = partial(tree_map, f)` and `name = partial(tree_map, partial(f, ...))`."""
        out = {}
        for n in self.tree.body:
            if isinstance(n, ast.Assign) and len(n.targets) == 1 and isinstance(n.targets[0], ast.Name):
                v = n.value
                if isinstance(v, ast.Call) and dotted(v.func) == "partial" and len(v.args) == 2 and not v.keywords \
                        and dotted(v.args[0]) == "tree_map":
                    out[n.targets[0].id] = Alias("map", v.args[1])
        return out

    def segment(self, node):
        """Source text of a function for the quote in the generated file, without its docstring
        (docstrings contain words like 'Parameters' that only clutter greps of the Coq sources)."""
        seg = ast.get_source_segment(self.text, node) or ""
        body = getattr(node, "body", None)
        if body and isinstance(body[0], ast.Expr) and isinstance(getattr(body[0], "value", None), ast.Constant) \
                and isinstance(body[0].value.value, str):
            lines = self.text.split("\n")
            a, b = body[0].lineno, body[0].end_lineno
            keep = lines[node.lineno - 1:a - 1] + lines[b:node.end_lineno]
            seg = "\n".join(keep)
        return seg


# --------------------------------------------------------------------------------------------------
# Definitions and emitters
# --------------------------------------------------------------------------------------------------

class Def:
    def __init__(self, name, params, ir, origin="", quote="", guards=(), flags=None):
        self.name, self.params, self.ir = name, list(params), ir
        self.origin, self.quote, self.guards, self.flags = origin, quote, list(guards), dict(flags or {})
        if ir[0] in ("tuple", "cx"):
            raise TranslationError("%s: a %s reached a scalar definition" % (name, ir[0]))
        if ir[0] == "poison":
            raise TranslationError("%s (%s): untranslatable: %s" % (name, origin, ir[1]))
        # force any nested poison to surface
        to_coq(ir)
        fv = free_vars(ir)
        ids = {coq_ident(p) for p in self.params}
        extra = {coq_ident(v) for v in fv} - ids
        if extra:
            raise TranslationError("%s (%s): free variables %s are not declared parameters" % (name, origin, sorted(extra)))
        if len(ids) != len(self.params):
            raise TranslationError("%s: parameter names collide" % name)

    def syms(self):
        return free_syms(self.ir)


def translate(src, qual, cfg, inputs, outputs, bound=(), this="return"):
    """Translate source function `qual` of Source `src`.
    inputs : {python name (dotted / subscript text) -> IR}   initial environment
    outputs: [(defname, params, selector)] selector = 'return' | 'return.<tag>' | python variable name
    Returns a list of Def."""
    fd = src.find(qual)
    run = Run(cfg, "%s:%s" % (src.rel, qual))
    env = dict(src.module_aliases())
    env.update(inputs)
    ret = run.body(fd.body, env, bound=set(bound))
    defs = []
    for name, params, sel in outputs:
        part = None
        if sel.endswith("#re") or sel.endswith("#im"):
            sel, part = sel[:-3], sel[-2:]
        tag = None
        if "@" in sel:
            sel, tag = sel.split("@", 1)
        elif sel.startswith("return."):
            sel, tag = "return", sel[len("return."):]
        if sel == "return":
            if ret is None:
                raise TranslationError("%s: no return on the selected path" % run.src_name)
            ir = ret
        else:
            if sel not in env or isinstance(env[sel], Alias):
                raise TranslationError("%s: variable %s is not assigned on the selected path" % (run.src_name, sel))
            ir = env[sel]
        if tag is not None:
            if ir[0] != "tuple":
                raise TranslationError("%s: %s is not a tuple / keyed sum" % (run.src_name, sel))
            m = [x for t, x in ir[1] if t == tag]
            if len(m) != 1:
                raise TranslationError("%s: no unique component %s in %s" % (run.src_name, tag, sel))
            ir = m[0]
        if part is not None:
            ir = c_real(ir) if part == "re" else c_imag(ir)
        elif ir[0] == "cx":
            if not _is0(ir[2]):
                raise TranslationError("%s: output %s is complex; select .re or .im" % (run.src_name, name))
            ir = ir[1]
        defs.append(Def(name, params, ir, origin="%s:%d %s" % (src.rel, fd.lineno, qual),
                        quote=src.segment(fd), guards=run.guards, flags=run.used_flags))
    return defs


def emit_coq(defs, title, free_decl):
    """free_decl: ordered [(symbol, arity)] of the free function symbols (Section Variables)."""
    used = set()
    for d in defs:
        used |= d.syms()
    for s in used:
        if s not in set(free_decl):
            raise TranslationError("free symbol %s/%d is not declared" % s)
    out = ["(* GENERATED by tr/realexpr.py -- %s.  Do not edit; regenerated on every check run. *)" % title,
           COQ_PREAMBLE]
    out.append("Section Gen.")
    for s, n in free_decl:
        out.append("Variable %s : %sR." % (s, "R -> " * n))
    quoted = set()
    for d in defs:
        if d.quote and d.origin not in quoted:
            quoted.add(d.origin)
            q = d.quote.replace("(*", "( *").replace("*)", "* )")
            out.append("\n(* source %s\n%s\n*)" % (d.origin, q))
        if d.guards:
            out.append("(* preconditions enforced by the source (raise otherwise): %s *)" % "; ".join(g.replace("*)", "* )") for g in d.guards))
        if d.flags:
            out.append("(* branch selection: %s *)" % "; ".join("%s = %s" % (k.replace("*)", "* )"), v) for k, v in sorted(d.flags.items())))
        ps = "".join(" (%s : R)" % coq_ident(p) for p in d.params)
        out.append("Definition %s%s : R :=\n  %s." % (d.name, ps, to_coq(d.ir)))
    out.append("\nEnd Gen.\n")
    return "\n".join(out)


def compile_py(defs, free_impl):
    """Independent Python rendering of the same IR: {defname: callable(*params)}."""
    ns = {"math": math}
    ns.update(free_impl)
    src = []
    for d in defs:
        for s, n in d.syms():
            if s not in free_impl:
                raise TranslationError("no Python implementation supplied for free symbol %s" % s)
        src.append("def %s(%s):\n    return %s\n" % (d.name, ", ".join(coq_ident(p) for p in d.params), to_py(d.ir)))
    code = "\n".join(src)
    exec(compile(code, "<realexpr-rendering>", "exec"), ns)
    return {d.name: ns[d.name] for d in defs}, code
