"""Fail-closed translator: push_sseq, push_sseq_from_seed, pop_sseq, spawn_sseq and
Context.__init__/__enter__/__exit__ of nifty/cl/random.py -> coq/C21/Gen_Random.v.

Every statement must have one of the shapes listed in coq/C21/Stmt.v; it is mapped to the primitive of
that name.  Anything else (an additional statement, another receiver, another argument) raises
TranslationError.  Docstrings are skipped."""
import ast
import hashlib
import os

from harness.common import TranslationError


def body_of(fn):
    return [s for s in fn.body if not (isinstance(s, ast.Expr) and isinstance(s.value, ast.Constant)
                                       and isinstance(s.value.value, str))]


def is_name(e, n):
    return isinstance(e, ast.Name) and e.id == n


def is_attr_chain(e, names):
    """np.random.default_rng  ->  ['np', 'random', 'default_rng']"""
    out = []
    while isinstance(e, ast.Attribute):
        out.append(e.attr)
        e = e.value
    if isinstance(e, ast.Name):
        out.append(e.id)
    return list(reversed(out)) == names


def is_call(e, names, nargs):
    return (isinstance(e, ast.Call) and not e.keywords and len(e.args) == nargs
            and (is_attr_chain(e.func, names) if len(names) > 1 else is_name(e.func, names[0])))


def is_top_of(e, lst):
    return (isinstance(e, ast.Subscript) and is_name(e.value, lst) and isinstance(e.slice, ast.UnaryOp)
            and isinstance(e.slice.op, ast.USub) and isinstance(e.slice.operand, ast.Constant) and e.slice.operand.value == 1)


def is_len_sseq(e):
    return is_call(e, ["len"], 1) and is_name(e.args[0], "_sseq")


def is_self_attr(e, a):
    return isinstance(e, ast.Attribute) and e.attr == a and is_name(e.value, "self")


def fail(where, node):
    raise TranslationError("nifty/cl/random.py:%s: unsupported statement/expression `%s`"
                           % (where, ast.unparse(node)[:160]))


def obj_expr(e, params, where):
    """expression denoting a SeedSequence object -> (wrapper, arg)"""
    if isinstance(e, ast.Name) and e.id in params:
        return "with_param %s" % e.id
    if is_call(e, ["np", "random", "SeedSequence"], 1) and isinstance(e.args[0], ast.Name) and e.args[0].id in params:
        return "with_new_seedseq %s" % e.args[0].id
    if is_self_attr(e, "_sseq"):
        return "with_self_sseq self"
    fail(where, e)


def stmt(s, params, where, known):
    # _sseq.append(<e>)
    if isinstance(s, ast.Expr) and is_call(s.value, ["_sseq", "append"], 1):
        return "(%s sseq_append)" % obj_expr(s.value.args[0], params, where)
    # _rng.append(np.random.default_rng(_sseq[-1]))
    if isinstance(s, ast.Expr) and is_call(s.value, ["_rng", "append"], 1):
        a = s.value.args[0]
        if is_call(a, ["np", "random", "default_rng"], 1) and is_top_of(a.args[0], "_sseq"):
            return "rng_append_default_rng_top"
        fail(where, s)
    if isinstance(s, ast.Expr) and is_call(s.value, ["_sseq", "pop"], 0):
        return "sseq_pop"
    if isinstance(s, ast.Expr) and is_call(s.value, ["_rng", "pop"], 0):
        return "rng_pop"
    # self._depth = len(_sseq)
    if (isinstance(s, ast.Assign) and len(s.targets) == 1 and is_self_attr(s.targets[0], "_depth")
            and is_len_sseq(s.value)):
        return "(set_self_depth_len self)"
    # if self._depth != len(_sseq): raise RuntimeError("...")
    if isinstance(s, ast.If) and not s.orelse and len(s.body) == 1 and isinstance(s.body[0], ast.Raise):
        t, r = s.test, s.body[0]
        if (isinstance(t, ast.Compare) and len(t.ops) == 1 and isinstance(t.ops[0], ast.NotEq)
                and is_self_attr(t.left, "_depth") and is_len_sseq(t.comparators[0]) and r.cause is None
                and is_call(r.exc, ["RuntimeError"], 1) and isinstance(r.exc.args[0], ast.Constant)):
            return "(raise_if_depth_ne self)"
        fail(where, s)
    # push_sseq(<e>) / pop_sseq()
    if isinstance(s, ast.Expr) and is_call(s.value, ["push_sseq"], 1) and "push_sseq" in known:
        return "(%s g_push_sseq)" % obj_expr(s.value.args[0], params, where)
    if isinstance(s, ast.Expr) and is_call(s.value, ["pop_sseq"], 0) and "pop_sseq" in known:
        return "g_pop_sseq"
    fail(where, s)


def seq(stmts):
    if not stmts:
        return "ret"
    out = stmts[-1]
    for x in reversed(stmts[:-1]):
        out = "(bind %s %s)" % (x, out)
    return out


def params_of(fn, expect, where):
    a = fn.args
    names = [x.arg for x in a.args]
    if a.vararg or a.kwarg or a.kwonlyargs or a.posonlyargs or names != expect:
        raise TranslationError("nifty/cl/random.py:%s: parameters %r, expected %r" % (where, names, expect))
    return names


def translate(repo):
    path = os.path.join(repo, "nifty/cl/random.py")
    src = open(path).read()
    tree = ast.parse(src)
    funs = {n.name: n for n in tree.body if isinstance(n, ast.FunctionDef)}
    cls = [n for n in tree.body if isinstance(n, ast.ClassDef) and n.name == "Context"]
    if len(cls) != 1:
        raise TranslationError("class Context not found in nifty/cl/random.py")
    meth = {n.name: n for n in cls[0].body if isinstance(n, ast.FunctionDef)}
    extra = [n for n in cls[0].body if not (isinstance(n, ast.FunctionDef) or
                                            (isinstance(n, ast.Expr) and isinstance(n.value, ast.Constant)))]
    if extra or sorted(meth) != ["__enter__", "__exit__", "__init__"]:
        raise TranslationError("class Context: unexpected members %r" % (sorted(meth) + [ast.unparse(e)[:60] for e in extra]))
    for f in ("push_sseq", "push_sseq_from_seed", "pop_sseq", "spawn_sseq"):
        if f not in funs:
            raise TranslationError("function %s not found" % f)
        if funs[f].decorator_list:
            raise TranslationError("function %s is decorated" % f)
    # module-level stacks must be plain lists initialised as documented
    out = []
    segs = []

    def emit(name, sig, fn, text):
        segs.append(ast.get_source_segment(src, fn))
        seg = "def %s(%s):\n" % (fn.name, ast.unparse(fn.args)) + "\n".join(
            "    " + l for st_ in body_of(fn) for l in ast.unparse(st_).split("\n"))
        out.append("(* source:\n%s\n*)\nDefinition %s %s := %s.\n" % (
            seg.replace("(*", "( *").replace("*)", "* )"), name, sig, text))

    # push_sseq(sseq)
    fn = funs["push_sseq"]
    p = params_of(fn, ["sseq"], "push_sseq")
    emit("g_push_sseq", "(sseq : nat) : M", fn, seq([stmt(s, p, "push_sseq", []) for s in body_of(fn)]))
    # push_sseq_from_seed(seed)
    fn = funs["push_sseq_from_seed"]
    p = params_of(fn, ["seed"], "push_sseq_from_seed")
    emit("g_push_sseq_from_seed", "(seed : Z) : M", fn, seq([stmt(s, p, "push_sseq_from_seed", []) for s in body_of(fn)]))
    # pop_sseq()
    fn = funs["pop_sseq"]
    params_of(fn, [], "pop_sseq")
    emit("g_pop_sseq", ": M", fn, seq([stmt(s, [], "pop_sseq", []) for s in body_of(fn)]))
    # spawn_sseq(n, parent=None)
    fn = funs["spawn_sseq"]
    params_of(fn, ["n", "parent"], "spawn_sseq")
    d = fn.args.defaults
    if len(d) != 1 or not (isinstance(d[0], ast.Constant) and d[0].value is None):
        raise TranslationError("spawn_sseq: default of `parent` is not None")
    b = body_of(fn)
    ok = (len(b) == 2 and isinstance(b[0], ast.If) and not b[0].orelse
          and isinstance(b[0].test, ast.Compare) and is_name(b[0].test.left, "parent")
          and len(b[0].test.ops) == 1 and isinstance(b[0].test.ops[0], ast.Is)
          and isinstance(b[0].test.comparators[0], ast.Constant) and b[0].test.comparators[0].value is None)
    if ok:
        inner = [s for s in b[0].body if not isinstance(s, ast.Global)]
        ok = (len(inner) == 1 and isinstance(inner[0], ast.Assign) and len(inner[0].targets) == 1
              and is_name(inner[0].targets[0], "parent") and is_top_of(inner[0].value, "_sseq"))
    if ok:
        r = b[1]
        ok = (isinstance(r, ast.Return) and is_call(r.value, ["parent", "spawn"], 1) and is_name(r.value.args[0], "n"))
    if not ok:
        fail("spawn_sseq", fn)
    emit("g_spawn_sseq", "(n : nat) (parent : option nat) : M", fn, "parent_default_top parent (spawn_parent n)")
    # Context.__init__(self, inp)
    fn = meth["__init__"]
    params_of(fn, ["self", "inp"], "Context.__init__")
    b = body_of(fn)
    ok = len(b) == 2 and isinstance(b[0], ast.If) and not b[0].orelse and len(b[0].body) == 1
    if ok:
        t = b[0].test
        ok = (isinstance(t, ast.UnaryOp) and isinstance(t.op, ast.Not) and is_call(t.operand, ["isinstance"], 2)
              and is_name(t.operand.args[0], "inp") and is_attr_chain(t.operand.args[1], ["np", "random", "SeedSequence"]))
        a = b[0].body[0]
        ok = ok and (isinstance(a, ast.Assign) and len(a.targets) == 1 and is_name(a.targets[0], "inp")
                     and is_call(a.value, ["np", "random", "SeedSequence"], 1) and is_name(a.value.args[0], "inp"))
        a = b[1]
        ok = ok and (isinstance(a, ast.Assign) and len(a.targets) == 1 and is_self_attr(a.targets[0], "_sseq")
                     and is_name(a.value, "inp"))
    if not ok:
        fail("Context.__init__", fn)
    emit("g_ctx_init", "(i : inp) : M", fn, "init_self_sseq i")
    # Context.__enter__(self)
    fn = meth["__enter__"]
    params_of(fn, ["self"], "Context.__enter__")
    emit("g_ctx_enter", "(self : nat) : M", fn,
         seq([stmt(s, [], "Context.__enter__", ["push_sseq", "pop_sseq"]) for s in body_of(fn)]))
    # Context.__exit__(self, exc_type, exc_value, tb)
    fn = meth["__exit__"]
    params_of(fn, ["self", "exc_type", "exc_value", "tb"], "Context.__exit__")
    b = body_of(fn)
    if not b or not isinstance(b[-1], ast.Return):
        fail("Context.__exit__", fn)
    r = b[-1].value
    if not (isinstance(r, ast.Compare) and is_name(r.left, "exc_type") and len(r.ops) == 1 and isinstance(r.ops[0], ast.Is)
            and isinstance(r.comparators[0], ast.Constant) and r.comparators[0].value is None):
        fail("Context.__exit__", b[-1])
    emit("g_ctx_exit", "(self : nat) : M", fn,
         seq([stmt(s, [], "Context.__exit__", ["push_sseq", "pop_sseq"]) for s in b[:-1]]))
    out.append("Definition g_ctx_exit_value : option exc -> bool := ret_exc_is_none.\n")
    sha = hashlib.sha256("\n".join(segs).encode()).hexdigest()[:16]
    text = ("(* GENERATED by tr/c21_random.py from nifty/cl/random.py (sha256 of the translated functions: %s).\n"
            "   Do not edit; regenerated on every run of ./check C21. *)\n"
            "From Coq Require Import List ZArith Bool Arith.\nImport ListNotations.\n"
            "Require Import NV.C21.Model NV.C21.Stmt.\n\n" % sha) + "\n".join(out)
    return text, sha
