"""C12: per-pixel formulas of the JAX likelihoods, translated from nifty/re/likelihood_impl.py into
coq/C12/Gen_Lh.v.

Reading (recorded in the generated file): `vdot(a, b)` is conj(a)*b and `sum(...)` the identity
(an energy is the sum over pixels of the generated function, checked numerically against the
implementation); `self.noise_cov_inv(x)` / `self.noise_std_inv(x)` are the diagonal operators
cov_inv*x / std_inv*x; `primals[k]`, `tangents[k]` are the components of the (mean, std_inv) resp.
(mean, std) tuples; `self.iscomplex` is the constant 0 or 1 of the translated variant;
`type(primals)(res)` re-wraps the result tuple.  Complex data / means are (re, im) pairs inside the
translator.  Not translated (matrix-valued / row-wise, see notes): NDVariableCovarianceGaussian,
Categorical (hand model coq/C12/Model.v, tied by correspondence inside coqc).
"""
import os

from . import realexpr as T
from .realexpr import V, C_

FREE = []


def _vdot(tr, args, kw):
    T._arity(args, 2)
    return T.vdot(args[0], args[1])


def _sum(tr, args, kw):
    T._arity(args, 1)
    return args[0]


def _m_conj(tr, o, args, raw):
    return T.c_conj(o) if T.is_cx(o) else o


def funcs():
    f = T.np_funcs()
    f.update({
        "vdot": _vdot, "sum": _sum,
        "self.noise_cov_inv": lambda tr, args, kw: (T.c_arith("*", V("cov_inv"), args[0]) if T.is_cx(args[0]) else T.mk("*", V("cov_inv"), args[0])),
        "self.noise_std_inv": lambda tr, args, kw: (T.c_arith("*", V("std_inv"), args[0]) if T.is_cx(args[0]) else T.mk("*", V("std_inv"), args[0])),
    })
    return f


METHODS = {"conj": _m_conj}
ATTRS = {"real": lambda tr, o: T.c_real(o)}


def build(repo):
    src = T.Source(os.path.join(repo, "nifty/re/likelihood_impl.py"), repo)
    inl = {"_standard_t": src.find("_standard_t")}
    defs = []

    def tr(qual, inputs, outputs, flags=None):
        cfg = T.Cfg(funcs=funcs(), methods=METHODS, attrs=ATTRS, flags=flags or {}, inline=inl)
        return T.translate(src, qual, cfg, inputs, outputs)

    x, v, d = V("x"), V("v"), V("d")
    # ---- Gaussian ---------------------------------------------------------------------------------
    defs += tr("Gaussian.energy", {"primals": x, "self.data": d}, [("gauss_E", ["cov_inv", "d", "x"], "return")])
    defs += tr("Gaussian.metric", {"primals": x, "tangents": v}, [("gauss_M", ["cov_inv", "v"], "return")])
    defs += tr("Gaussian.left_sqrt_metric", {"primals": x, "tangents": v}, [("gauss_L", ["std_inv", "v"], "return")])
    defs += tr("Gaussian.transformation", {"primals": x}, [("gauss_t", ["std_inv", "x"], "return")])
    # ---- Student-t --------------------------------------------------------------------------------
    st = {"primals": x, "tangents": v, "self.data": d, "self.dof": V("dof")}
    defs += tr("StudentT.energy", st, [("studentt_E", ["std_inv", "dof", "d", "x"], "return")])
    defs += tr("StudentT.metric", st, [("studentt_M", ["cov_inv", "dof", "v"], "return")])
    defs += tr("StudentT.left_sqrt_metric", st, [("studentt_L", ["std_inv", "dof", "v"], "return")])
    defs += tr("StudentT.transformation", st, [("studentt_t", ["std_inv", "dof", "x"], "return")])
    # ---- Poisson ----------------------------------------------------------------------------------
    po = {"primals": x, "tangents": v, "self.data": d}
    defs += tr("Poissonian.energy", po, [("poisson_E", ["d", "x"], "return")])
    defs += tr("Poissonian.metric", po, [("poisson_M", ["x", "v"], "return")])
    defs += tr("Poissonian.left_sqrt_metric", po, [("poisson_L", ["x", "v"], "return")])
    defs += tr("Poissonian.transformation", po, [("poisson_t", ["x"], "return")])
    # ---- variable-covariance Gaussian: primals = (mean m, std_inv s) ----------------------------------
    for nm, c in (("real", 0), ("cplx", 1)):
        if c:
            inp = {"primals[0]": ("cx", V("ma"), V("mb")), "primals[1]": V("s"), "self.data": ("cx", V("da"), V("db")),
                   "tangents[0]": ("cx", V("va"), V("vb")), "tangents[1]": V("v1"), "self.iscomplex": C_(1)}
            defs += tr("VariableCovarianceGaussian.energy", inp, [("vcg_cplx_E", ["da", "db", "ma", "mb", "s"], "return")])
            defs += tr("VariableCovarianceGaussian.metric", inp,
                       [("vcg_cplx_M0", ["s", "va"], "res@0#re"), ("vcg_cplx_M0im", ["s", "vb"], "res@0#im"), ("vcg_cplx_M1", ["s", "v1"], "res@1")])
            defs += tr("VariableCovarianceGaussian.left_sqrt_metric", inp,
                       [("vcg_cplx_L0", ["s", "va"], "res@0#re"), ("vcg_cplx_L0im", ["s", "vb"], "res@0#im"), ("vcg_cplx_L1", ["s", "v1"], "res@1")])
            defs += tr("VariableCovarianceGaussian.transformation", inp,
                       [("vcg_cplx_t0", ["da", "ma", "s"], "res@0#re"), ("vcg_cplx_t0im", ["db", "mb", "s"], "res@0#im"),
                        ("vcg_cplx_t1", ["s"], "res@1")])
        else:
            inp = {"primals[0]": V("m"), "primals[1]": V("s"), "self.data": d,
                   "tangents[0]": V("v0"), "tangents[1]": V("v1"), "self.iscomplex": C_(0)}
            defs += tr("VariableCovarianceGaussian.energy", inp, [("vcg_real_E", ["d", "m", "s"], "return")])
            defs += tr("VariableCovarianceGaussian.metric", inp, [("vcg_real_M0", ["s", "v0"], "res@0"), ("vcg_real_M1", ["s", "v1"], "res@1")])
            defs += tr("VariableCovarianceGaussian.left_sqrt_metric", inp, [("vcg_real_L0", ["s", "v0"], "res@0"), ("vcg_real_L1", ["s", "v1"], "res@1")])
            defs += tr("VariableCovarianceGaussian.transformation", inp, [("vcg_real_t0", ["d", "m", "s"], "res@0"), ("vcg_real_t1", ["s"], "res@1")])
    # ---- variable-covariance Student-t: primals = (mean m, std sg) ----------------------------------------
    vs = {"primals[0]": V("m"), "primals[1]": V("sg"), "self.data": d, "self.dof": V("dof"),
          "tangent[0]": V("v0"), "tangent[1]": V("v1"), "tangents[0]": V("v0"), "tangents[1]": V("v1")}
    defs += tr("VariableCovarianceStudentT.energy", vs, [("vcst_E", ["dof", "d", "m", "sg"], "return")])
    defs += tr("VariableCovarianceStudentT.metric", vs, [("vcst_M0", ["dof", "sg", "v0"], "res@0"), ("vcst_M1", ["dof", "sg", "v1"], "res@1")])
    defs += tr("VariableCovarianceStudentT.left_sqrt_metric", vs, [("vcst_L0", ["dof", "sg", "v0"], "res@0"), ("vcst_L1", ["dof", "sg", "v1"], "res@1")])
    return defs


def generate(repo):
    defs = build(repo)
    text = T.emit_coq(defs, "C12 JAX likelihoods (nifty/re/likelihood_impl.py)", FREE)
    return defs, text
