"""Fail-closed translator: nifty/cl/utilities.py `allreduce_sum` -> coq/C23/Gen_Allreduce.v.

What is translated (generically, statement by statement / expression by expression):
  * the loop nest   step = <int>; while <cmp>: for j in range(a, b, c): <ifs>; step *= <int>
    -> `Gen_body` (the body of the `for`, a nest of `if`s whose leaves are recognised actions),
       `Gen_while` (the `while`, structural recursion on fuel, `None` when the fuel runs out),
       `Gen_prog`  (initial value of the loop variable, fuel S nobj);
  * the two return statements -> `Gen_result_index`, `Gen_bcast_root`.
Leaves (exact statement shapes, anything else raises TranslationError):
    vals[J] = vals[J] + vals[K]; vals[K] = None                       -> LAdd J K
    vals[J] = vals[J] + _recv(comm, source=S, dtype=dtype)            -> LRecv J S
    _send(comm, vals[K], dest=D, dtype=dtype); vals[K] = None         -> LSend K D
Expressions: the names rank / step / j / nobj, non-negative int literals, + and *, who[<expr>].
Comparisons: <, ==.   Everything around the loop (how `who`, `rank`, `nobj` are obtained from the
communicator) is an *idiom* compared textually (ast.unparse, so comments/whitespace do not matter)
with PRELUDE below; its meaning (who = owner list of the prefix-sum partition, collectives in
front) is what Model.v assumes and what the correspondence check observes on the real code."""
import ast
import hashlib
import os

from harness.common import TranslationError

PRELUDE = [
    "vals = list(obj)",
    """if comm is None:
    nobj = len(vals)
    who = np.zeros(nobj, dtype=np.int32)
    rank = 0
    dtype = type(vals[0])
else:
    rank = comm.Get_rank()
    nobj_list = comm.allgather(len(vals))
    all_hi = list(np.cumsum(nobj_list))
    all_lo = [0] + all_hi[:-1]
    nobj = all_hi[-1]
    rank_lo_hi = [(l, h) for l, h in zip(all_lo, all_hi)]
    lo, hi = rank_lo_hi[rank]
    vals = [None] * lo + vals + [None] * (nobj - hi)
    who = [t for t, (l, h) in enumerate(rank_lo_hi) for cnt in range(h - l)]
    dtype = comm.allreduce([type(x) for x in vals if x is not None])
    dtype = list(set(dtype))
    assert len(dtype) == 1
    dtype = dtype[0]""",
]
NAMES = {"rank", "step", "j", "nobj"}


def fail(msg, node=None):
    where = ""
    if node is not None:
        where = " at line %s: %s" % (getattr(node, "lineno", "?"), ast.unparse(node)[:160])
    raise TranslationError("c23_allreduce: " + msg + where)


def expr(e):
    if isinstance(e, ast.Name):
        if e.id not in NAMES:
            fail("unknown name", e)
        return e.id
    if isinstance(e, ast.Constant) and type(e.value) is int and 0 <= e.value < 1000:
        return str(e.value)
    if isinstance(e, ast.BinOp) and isinstance(e.op, (ast.Add, ast.Mult)):
        return "(%s %s %s)" % (expr(e.left), "+" if isinstance(e.op, ast.Add) else "*", expr(e.right))
    if isinstance(e, ast.Subscript) and isinstance(e.value, ast.Name) and e.value.id == "who":
        return "(who %s)" % expr(e.slice)
    fail("untranslatable expression", e)


def cond(t):
    if isinstance(t, ast.Compare) and len(t.ops) == 1 and len(t.comparators) == 1:
        a, b = expr(t.left), expr(t.comparators[0])
        if isinstance(t.ops[0], ast.Lt):
            return "(%s <? %s)" % (a, b)
        if isinstance(t.ops[0], ast.Eq):
            return "(%s =? %s)" % (a, b)
    fail("untranslatable condition", t)


def vals_at(e):
    """vals[<expr>] -> Coq index expression, else None"""
    if isinstance(e, ast.Subscript) and isinstance(e.value, ast.Name) and e.value.id == "vals":
        return expr(e.slice)
    return None


def is_none_assign(s):
    if isinstance(s, ast.Assign) and len(s.targets) == 1 and isinstance(s.value, ast.Constant) and s.value.value is None:
        return vals_at(s.targets[0])
    return None


def call_kw(c, fname, npos, kws):
    if not (isinstance(c, ast.Call) and isinstance(c.func, ast.Name) and c.func.id == fname):
        return None
    if len(c.args) != npos or sorted(k.arg for k in c.keywords) != sorted(kws):
        fail("unexpected arguments of %s" % fname, c)
    if not (isinstance(c.args[0], ast.Name) and c.args[0].id == "comm"):
        fail("first argument of %s is not comm" % fname, c)
    d = {k.arg: k.value for k in c.keywords}
    if "dtype" in d and not (isinstance(d["dtype"], ast.Name) and d["dtype"].id == "dtype"):
        fail("dtype argument of %s" % fname, c)
    return d


def leaf(stmts):
    """a straight-line group of statements -> one recognised action"""
    if len(stmts) == 2 and isinstance(stmts[0], ast.Assign) and len(stmts[0].targets) == 1:
        # vals[J] = vals[J] + vals[K]; vals[K] = None
        J = vals_at(stmts[0].targets[0])
        v = stmts[0].value
        if J is not None and isinstance(v, ast.BinOp) and isinstance(v.op, ast.Add):
            L, K = vals_at(v.left), vals_at(v.right)
            K2 = is_none_assign(stmts[1])
            if L == J and K is not None and K2 == K and K != J:
                return "[LAdd %s %s]" % (J, K)
    if len(stmts) == 1 and isinstance(stmts[0], ast.Assign) and len(stmts[0].targets) == 1:
        # vals[J] = vals[J] + _recv(comm, source=S, dtype=dtype)
        J = vals_at(stmts[0].targets[0])
        v = stmts[0].value
        if J is not None and isinstance(v, ast.BinOp) and isinstance(v.op, ast.Add) and vals_at(v.left) == J:
            d = call_kw(v.right, "_recv", 1, ["source", "dtype"])
            if d is not None:
                return "[LRecv %s %s]" % (J, expr(d["source"]))
    if len(stmts) == 2 and isinstance(stmts[0], ast.Expr):
        # _send(comm, vals[K], dest=D, dtype=dtype); vals[K] = None
        d = call_kw(stmts[0].value, "_send", 2, ["dest", "dtype"])
        if d is not None:
            K = vals_at(stmts[0].value.args[1])
            if K is not None and is_none_assign(stmts[1]) == K:
                return "[LSend %s %s]" % (K, expr(d["dest"]))
    fail("unrecognised statement group", stmts[0])


def block(stmts, ind):
    """list of statements -> Coq term of type list lact"""
    if len(stmts) == 1 and isinstance(stmts[0], ast.If):
        s = stmts[0]
        els = block(s.orelse, ind + 1) if s.orelse else "[]"
        pad = "  " * ind
        return "(if %s then\n%s  %s\n%selse\n%s  %s)" % (cond(s.test), pad, block(s.body, ind + 1), pad, pad, els)
    if any(isinstance(s, (ast.If, ast.For, ast.While)) for s in stmts):
        fail("control flow mixed with other statements", stmts[0])
    return leaf(stmts)


def translate(repo):
    path = os.path.join(repo, "nifty", "cl", "utilities.py")
    src = open(path).read()
    try:
        tree = ast.parse(src)
    except SyntaxError as e:
        raise TranslationError("c23_allreduce: cannot parse utilities.py: %s" % e)
    fns = [n for n in tree.body if isinstance(n, ast.FunctionDef) and n.name == "allreduce_sum"]
    if len(fns) != 1:
        fail("allreduce_sum not found exactly once")
    fn = fns[0]
    if [a.arg for a in fn.args.args] != ["obj", "comm"] or fn.args.vararg or fn.args.kwarg or fn.args.kwonlyargs \
            or fn.decorator_list:
        fail("unexpected signature of allreduce_sum")
    body = [s for s in fn.body if not (isinstance(s, ast.Expr) and isinstance(s.value, ast.Constant))]
    if len(body) != 6:
        fail("allreduce_sum: expected 6 top-level statements, found %d" % len(body))
    for got, want in zip(body[:2], PRELUDE):
        if ast.unparse(got) != ast.unparse(ast.parse(want).body[0]):
            fail("set-up idiom changed (expected:\n%s\n)" % want, got)
    # step = 1
    s = body[2]
    if not (isinstance(s, ast.Assign) and len(s.targets) == 1 and isinstance(s.targets[0], ast.Name)
            and s.targets[0].id == "step"):
        fail("expected `step = <int>`", s)
    step0 = expr(s.value)
    # while <cond>: for ...; step *= k
    w = body[3]
    if not (isinstance(w, ast.While) and not w.orelse and len(w.body) == 2):
        fail("expected `while` with a `for` and an update of step", w)
    wcond = cond(w.test)
    f, upd = w.body
    if not (isinstance(f, ast.For) and not f.orelse and isinstance(f.target, ast.Name) and f.target.id == "j"
            and isinstance(f.iter, ast.Call) and isinstance(f.iter.func, ast.Name) and f.iter.func.id == "range"
            and len(f.iter.args) == 3 and not f.iter.keywords):
        fail("expected `for j in range(a, b, c)`", f)
    rng = [expr(a) for a in f.iter.args]
    if any(isinstance(n, ast.Name) and n.id == "j" for a in f.iter.args for n in ast.walk(a)):
        fail("range arguments depend on j", f)
    if not (isinstance(upd, ast.AugAssign) and isinstance(upd.target, ast.Name) and upd.target.id == "step"
            and isinstance(upd.op, ast.Mult)):
        if isinstance(upd, ast.Assign) and len(upd.targets) == 1 and isinstance(upd.targets[0], ast.Name) \
                and upd.targets[0].id == "step":
            nxt = expr(upd.value)
        else:
            fail("expected `step *= <int>`", upd)
    else:
        nxt = "(step * %s)" % expr(upd.value)
    bodyterm = block(f.body, 2)
    # returns
    r1, r2 = body[4], body[5]
    if ast.unparse(r1.test if isinstance(r1, ast.If) else r1) != "comm is None" or len(r1.body) != 1 or r1.orelse \
            or not isinstance(r1.body[0], ast.Return):
        fail("expected `if comm is None: return vals[i]`", r1)
    ridx = vals_at(r1.body[0].value)
    if ridx is None:
        fail("sequential return is not vals[i]", r1)
    if not isinstance(r2, ast.Return):
        fail("expected `return _bcast(comm, vals[i], root=...)`", r2)
    d = call_kw(r2.value, "_bcast", 2, ["root"])
    if d is None or vals_at(r2.value.args[1]) != ridx:
        fail("broadcast does not send the cell returned sequentially", r2)
    root = expr(d["root"])
    sha = hashlib.sha256(ast.unparse(fn).encode()).hexdigest()[:16]
    text = """(* GENERATED by tr/c23_allreduce.py from nifty/cl/utilities.py (allreduce_sum, sha %s) -- do not edit. *)
From Coq Require Import List Arith.
Import ListNotations.
Require Import NV.C23.Py.

Definition Gen_body (who : nat -> nat) (nobj rank step j : nat) : list lact :=
  %s.

Fixpoint Gen_while (fuel : nat) (who : nat -> nat) (nobj rank step : nat) : option (list lact) :=
  match fuel with
  | O => None
  | S fuel' =>
    if %s then
      match Gen_while fuel' who nobj rank %s with
      | Some rest => Some (flat_map (Gen_body who nobj rank step) (py_range %s %s %s) ++ rest)
      | None => None
      end
    else Some []
  end.

Definition Gen_prog (who : nat -> nat) (nobj rank : nat) : option (list lact) :=
  let step := %s in Gen_while (S nobj) who nobj rank step.

Definition Gen_result_index : nat := %s.
Definition Gen_bcast_root (who : nat -> nat) : nat := %s.
""" % (sha, bodyterm, wcond, nxt, rng[0], rng[1], rng[2], step0, ridx, root)
    return text, sha
