"""C07: enumerate FROM THE SOURCE every public entry point of nifty.cl that can put caller-supplied
data into a Field / MultiField / AnyArray (directly or through another such entry point).

Light data-flow over the Python AST: the parameters of a public module-level function, of a public
static/class method, or of the __init__ of a public class are tainted; taint propagates through
assignments (any tainted name on the right-hand side, also `p(...)` -- the result of calling a
caller-supplied callable); a function is a *builder* when a tainted value reaches an argument of a
field-constructing call.  Field-constructing calls: Field / AnyArray / *.from_raw / *.from_dict /
*.scalar / makeField, and (fixpoint, by name) every builder found.  The harness needs, for every
builder with a tainted parameter that is not a known non-data parameter name, a recipe that feeds it
persistent arrays -- otherwise it fails closed."""
import ast
import os

BASE_CTORS = {"Field", "AnyArray", "from_raw", "from_dict", "scalar", "makeField"}
SKIP_METHODS = {"apply", "__call__", "draw_sample", "draw_sample_with_dtype", "get_sqrt", "times", "adjoint_times",
                "inverse_times", "adjoint_inverse_times", "at", "new", "force"}
# parameter names that never carry array data (domains, dtypes, flags, operators, Fields are immutable already)
NONDATA = {"domain", "target", "space", "spaces", "dtype", "device_id", "sampling_dtype", "random_type", "kwargs",
           "shape", "harmonic_partner", "grid_domain", "pre_domain", "eps", "sigma", "N_copies", "key", "keys",
           "domain_dtype", "target_dtype", "use_full_fisher", "residual_key", "inverse_covariance_key", "pspace",
           "want_metric", "neg", "name", "prefix", "verbose", "tol", "n_samples", "nsamples", "ntries", "napprox"}


def _callname(n):
    f = n.func
    if isinstance(f, ast.Name):
        return f.id
    if isinstance(f, ast.Attribute):
        return f.attr
    return None


def _scan(fn, ctors):
    params = [a.arg for a in fn.args.posonlyargs + fn.args.args + fn.args.kwonlyargs]
    if fn.args.vararg:
        params.append(fn.args.vararg.arg)
    if fn.args.kwarg:
        params.append(fn.args.kwarg.arg)
    params = [p for p in params if p not in ("self", "cls")]
    taint = {p: {p} for p in params}
    hits = set()
    for _ in range(4):
        for node in ast.walk(fn):
            if isinstance(node, (ast.Assign, ast.AugAssign, ast.AnnAssign, ast.NamedExpr)) and node.value is not None:
                src = set()
                for n in ast.walk(node.value):
                    if isinstance(n, ast.Name) and n.id in taint:
                        src |= taint[n.id]
                if src:
                    tg = node.targets if isinstance(node, ast.Assign) else [node.target]
                    for t in tg:
                        for n in ast.walk(t):
                            if isinstance(n, ast.Name):
                                taint.setdefault(n.id, set()).update(src)
            if isinstance(node, (ast.For, ast.comprehension)):
                src = set()
                for n in ast.walk(node.iter):
                    if isinstance(n, ast.Name) and n.id in taint:
                        src |= taint[n.id]
                if src:
                    for n in ast.walk(node.target):
                        if isinstance(n, ast.Name):
                            taint.setdefault(n.id, set()).update(src)
            if isinstance(node, ast.Call) and _callname(node) in ctors:
                for a in list(node.args) + [k.value for k in node.keywords]:
                    for n in ast.walk(a):
                        if isinstance(n, ast.Name) and n.id in taint:
                            hits |= taint[n.id]
    return sorted(hits & set(params))


def enumerate_builders(repo):
    """{qualified name: [tainted parameters reaching a field constructor]}"""
    funcs = []   # (qualname, short name that other code calls, ast node)
    root = os.path.join(repo, "nifty", "cl")
    for d, _, fs in sorted(os.walk(root)):
        for f in sorted(fs):
            if not f.endswith(".py"):
                continue
            p = os.path.join(d, f)
            mod = os.path.relpath(p, repo)[:-3].replace(os.sep, ".")
            tree = ast.parse(open(p).read())
            for node in tree.body:
                if isinstance(node, ast.FunctionDef) and not node.name.startswith("_"):
                    funcs.append((mod + ":" + node.name, node.name, node))
                if isinstance(node, ast.ClassDef) and not node.name.startswith("_"):
                    for m in node.body:
                        if not isinstance(m, ast.FunctionDef) or m.name in SKIP_METHODS:
                            continue
                        deco = [getattr(x, "id", getattr(x, "attr", None)) for x in m.decorator_list]
                        if m.name == "__init__":
                            funcs.append((mod + ":" + node.name + ".__init__", node.name, m))
                        elif not m.name.startswith("_") and ("staticmethod" in deco or "classmethod" in deco
                                                             or node.name in ("Field", "MultiField")):
                            funcs.append((mod + ":" + node.name + "." + m.name, m.name, m))
    ctors = set(BASE_CTORS)
    out = {}
    for _ in range(4):
        out = {}
        for q, short, node in funcs:
            h = _scan(node, ctors)
            if h:
                out[q] = h
        new = ctors | {short for q, short, node in funcs if q in out}
        if new == ctors:
            break
        ctors = new
    return out


def needs_recipe(builders):
    return {q: [p for p in h if p not in NONDATA] for q, h in builders.items() if [p for p in h if p not in NONDATA]}


if __name__ == "__main__":
    import sys
    b = enumerate_builders(sys.argv[1] if len(sys.argv) > 1 else "/repo")
    n = needs_recipe(b)
    print(len(b), len(n))
    for k, v in sorted(n.items()):
        print(k, v)
