"""Translator for C31: scalar (per-axis) index formulas of nifty/re/multi_grid/grid.py -> Gallina.

Python `ast` -> text of coq/C31/Gen_Index.v.  Whitelist, fail closed (raises Unsupported on any
statement / expression form it does not know).  What is translated: the arithmetic of one array
element.  What is dropped, by construction and only in these forms:
  * broadcasting subscripts `x[(slice(None),) + (np.newaxis,) * k]` (or a name bound to such a
    tuple): element-wise arithmetic is the same on every element;
  * `jnp.asarray(x)`, `np.asarray(x)`, `x.astype(..)` on integer data, `assert ...`,
    `if <cond>: raise ...` guards (the model describes the non-raising path);
  * `np.mgrid[...]` boxes: the variable becomes a parameter of the generated function (the model
    ranges it over the box).
The array structure around the formulas (Cartesian products over axes, level recursion, flat
encodings) is modelled by hand in coq/C31/Model.v and tied by the exhaustive correspondence check.
"""
import ast
import hashlib


class Unsupported(Exception):
    pass


def _txt(node):
    return ast.unparse(node)


def _is_bcast(node, names):
    """(slice(None),) + (np.newaxis,) * k  style index tuples."""
    if isinstance(node, ast.Name):
        return node.id in names
    if isinstance(node, ast.Tuple):
        return all(_is_bcast_elt(e) for e in node.elts)
    if isinstance(node, ast.BinOp) and isinstance(node.op, ast.Add):
        return _is_bcast(node.left, names) and _is_bcast(node.right, names)
    if isinstance(node, ast.BinOp) and isinstance(node.op, ast.Mult):
        return _is_bcast(node.left, names)       # tuple * integer
    return False


def _is_bcast_elt(e):
    t = _txt(e)
    return t in ("slice(None)", "np.newaxis", "jnp.newaxis", "None")


def _only_raises(body):
    """`msg = f"..."; raise E(msg)` blocks (error paths)."""
    if not body or not isinstance(body[-1], ast.Raise):
        return False
    return all(isinstance(s, ast.Assign) and isinstance(s.value, (ast.JoinedStr, ast.Constant)) for s in body[:-1])


class Fn:
    """Translation of one statement list into a Gallina `let ... in` chain."""

    def __init__(self, cfg, sigs):
        self.cfg = cfg
        self.sigs = sigs                  # gen name -> ordered parameter list
        self.q = cfg.get("ty", "Z") == "Q"
        self.bound = set(cfg["params"])   # variables in scope
        self.bcast = set()
        self.lines = []
        self.ret = None

    # ---- expressions
    def var(self, name):
        if name in self.cfg.get("rename", {}):
            name = self.cfg["rename"][name]
        if name not in self.bound:
            raise Unsupported("%s: free variable %r" % (self.cfg["name"], name))
        return name

    def expr(self, e):
        t = _txt(e)
        if t in self.cfg.get("alias", {}):
            return self.var(self.cfg["alias"][t])
        if isinstance(e, ast.Constant):
            if isinstance(e.value, bool):
                raise Unsupported("bool constant")
            if isinstance(e.value, int):
                return ("(%d # 1)" % e.value) if self.q else (str(e.value) if e.value >= 0 else "(%d)" % e.value)
            if isinstance(e.value, float) and self.q and e.value == 0.5:
                return "(1 # 2)"
            raise Unsupported("%s: constant %r" % (self.cfg["name"], e.value))
        if isinstance(e, ast.Name):
            return self.var(e.id)
        if isinstance(e, ast.Attribute):
            if isinstance(e.value, ast.Name) and e.value.id == "self":
                return self.var(e.attr)
            raise Unsupported("%s: attribute %s" % (self.cfg["name"], t))
        if isinstance(e, ast.Subscript):
            if _is_bcast(e.slice, self.bcast):
                return self.expr(e.value)
            if isinstance(e.slice, ast.Name) and e.slice.id in self.cfg.get("axis_index", ()):
                return self.expr(e.value)          # x[ax]: the element of this axis
            raise Unsupported("%s: subscript %s" % (self.cfg["name"], t))
        if isinstance(e, ast.UnaryOp) and isinstance(e.op, ast.USub):
            return "(- %s)" % self.expr(e.operand)
        if isinstance(e, ast.BinOp):
            a, b = self.expr(e.left), self.expr(e.right)
            if isinstance(e.op, ast.Add):
                return "(%s + %s)" % (a, b)
            if isinstance(e.op, ast.Sub):
                return "(%s - %s)" % (a, b)
            if isinstance(e.op, ast.Mult):
                return "(%s * %s)" % (a, b)
            if isinstance(e.op, ast.FloorDiv) and not self.q:
                return "(%s / %s)" % (a, b)          # Z.div is floor division, as jnp //
            if isinstance(e.op, ast.Mod) and not self.q:
                return "(%s mod %s)" % (a, b)        # Z.modulo has the sign of the divisor, as jnp %
            if isinstance(e.op, ast.Div) and self.q:
                return "(%s / %s)" % (a, b)
            raise Unsupported("%s: operator in %s" % (self.cfg["name"], t))
        if isinstance(e, ast.Compare) and len(e.ops) == 1 and not self.q:
            a, b = self.expr(e.left), self.expr(e.comparators[0])
            op = {ast.Lt: "<?", ast.LtE: "<=?", ast.Gt: ">?", ast.GtE: ">=?"}.get(type(e.ops[0]))
            if op is None:
                raise Unsupported("%s: comparison %s" % (self.cfg["name"], t))
            return "(%s %s %s)" % (a, op, b)
        if isinstance(e, ast.Call):
            return self.call(e)
        raise Unsupported("%s: expression %s" % (self.cfg["name"], t))

    def call(self, e):
        f = _txt(e.func)
        args = e.args
        if e.keywords:
            raise Unsupported("%s: keyword arguments in %s" % (self.cfg["name"], _txt(e)))
        if f in ("jnp.asarray", "np.asarray") and len(args) == 1:
            return self.expr(args[0])
        if f in ("jnp.abs", "np.abs") and len(args) == 1 and not self.q:
            return "(Z.abs %s)" % self.expr(args[0])
        if f in ("jnp.sign", "np.sign") and len(args) == 1 and not self.q:
            return "(Z.sgn %s)" % self.expr(args[0])
        if f == "select" and len(args) == 3:
            return "(if %s then %s else %s)" % tuple(self.expr(a) for a in args)
        if f in ("np.rint", "jnp.rint") and len(args) == 1 and self.q:
            return "(rint %s)" % self.expr(args[0])
        if isinstance(e.func, ast.Attribute):
            meth, recv = e.func.attr, e.func.value
            if meth == "astype" and len(args) == 1:
                return self.expr(recv)
            if meth == "clip" and len(args) == 2 and not self.q:
                return "(clip %s %s %s)" % (self.expr(recv), self.expr(args[0]), self.expr(args[1]))
            key = _txt(e.func)
            if key in self.cfg.get("calls", {}):
                gen = self.cfg["calls"][key]
                formal, pyargs = self.sigs[gen]
                if len(args) != len(pyargs):
                    raise Unsupported("%s: arity of %s" % (self.cfg["name"], key))
                # the Python call's positional arguments are matched by the callee's own
                # parameter names; the other parameters of the generated function (object
                # attributes, box variables) are passed through by name
                actual = dict(zip(pyargs, [self.expr(a) for a in args]))
                if not set(pyargs) <= set(formal):
                    raise Unsupported("%s: parameters of %s" % (self.cfg["name"], key))
                out = [actual[p] if p in actual else self.var(p) for p in formal]
                return "(%s %s)" % (gen, " ".join(out))
        raise Unsupported("%s: call %s" % (self.cfg["name"], _txt(e)))

    # ---- statements
    def let(self, name, rhs):
        self.lines.append("  let %s := %s in" % (name, rhs))
        self.bound.add(name)

    def stmts(self, body):
        for st in body:
            if self.ret is not None:
                raise Unsupported("%s: statement after return" % self.cfg["name"])
            self.stmt(st)

    def stmt(self, st):
        name = self.cfg["name"]
        if isinstance(st, ast.Expr) and isinstance(st.value, ast.Constant) and isinstance(st.value.value, str):
            return                                     # docstring
        if isinstance(st, ast.Assert):
            return
        if isinstance(st, ast.Expr) and _txt(st) in self.cfg.get("emit", ()):
            return                                     # e.g. index.append(tmfl): value is an output
        if isinstance(st, ast.If):
            body_raises = _only_raises(st.body)
            else_raises = bool(st.orelse) and _only_raises(st.orelse)
            if body_raises and not st.orelse:
                return                                 # guard
            if else_raises and not body_raises and _txt(st.test) in self.cfg.get("true_tests", ()):
                return self.stmts(st.body)
            raise Unsupported("%s: if %s" % (name, _txt(st.test)))
        if isinstance(st, ast.Assign) and len(st.targets) == 1 and isinstance(st.targets[0], ast.Name):
            tgt = st.targets[0].id
            if _is_bcast(st.value, self.bcast) and not isinstance(st.value, ast.Name):
                self.bcast.add(tgt)
                return
            if tgt in self.cfg.get("intro", {}):
                if _txt(st.value) != self.cfg["intro"][tgt][0]:
                    raise Unsupported("%s: %s = %s (expected %s)" % (name, tgt, _txt(st.value), self.cfg["intro"][tgt][0]))
                par = self.cfg["intro"][tgt][1]
                if par != tgt:
                    self.let(tgt, self.var(par))
                return
            return self.let(tgt, self.expr(st.value))
        if isinstance(st, ast.AugAssign) and isinstance(st.target, ast.Name):
            tgt = st.target.id
            fake = ast.BinOp(left=ast.Name(id=tgt, ctx=ast.Load()), op=st.op, right=st.value)
            return self.let(tgt, self.expr(fake))
        if isinstance(st, ast.Return) and st.value is not None:
            self.ret = self.expr(st.value)
            return
        raise Unsupported("%s: statement %s" % (name, _txt(st)[:80]))

    def render(self, ret_type, outputs=None):
        cfg = self.cfg
        ptype = "Q" if self.q else "Z"
        if outputs is not None:
            if self.ret is not None:
                raise Unsupported("%s: return inside loop body" % cfg["name"])
            self.ret = "(%s)" % ", ".join(self.var(o) for o in outputs)
        if self.ret is None:
            raise Unsupported("%s: no return value" % cfg["name"])
        head = "Definition %s (%s : %s) : %s :=" % (cfg["name"], " ".join(cfg["params"]), ptype, ret_type)
        return "\n".join([head] + self.lines + ["  %s." % self.ret])


def _find_method(tree, cls, meth):
    for c in tree.body:
        if isinstance(c, ast.ClassDef) and c.name == cls:
            for f in c.body:
                if isinstance(f, ast.FunctionDef) and f.name == meth:
                    return f
    raise Unsupported("method %s.%s not found" % (cls, meth))


def _find_for(fn, target, itertxt):
    hits = [n for n in ast.walk(fn) if isinstance(n, ast.For) and _txt(n.target) == target and _txt(n.iter) == itertxt]
    if len(hits) != 1:
        raise Unsupported("%s: expected exactly one `for %s in %s` (found %d)" % (fn.name, target, itertxt, len(hits)))
    if hits[0].orelse:
        raise Unsupported("for-else")
    return hits[0]


MGRID_SPLITS = "np.mgrid[tuple((slice(sz) for sz in self.splits))].astype(index.dtype)"
MGRID_WINDOW = "np.mgrid[tuple((slice(sz) for sz in window_size))]"

# (config, class, method, loop selector or None, Coq return type, loop outputs)
TARGETS = [
    ({"name": "gen_parse_index", "params": ["index", "shape"]},
     "GridAtLevel", "_parse_index", None, "Z", None),
    ({"name": "gen_children", "params": ["index", "shape", "splits", "c"],
      "calls": {"self._parse_index": "gen_parse_index"}, "intro": {"c": (MGRID_SPLITS, "c")}},
     "GridAtLevel", "children", None, "Z", None),
    ({"name": "gen_neighborhood", "params": ["index", "shape", "window_size", "c"],
      "calls": {"self._parse_index": "gen_parse_index"}, "intro": {"c": (MGRID_WINDOW, "c")}},
     "GridAtLevel", "neighborhood", None, "Z", None),
    ({"name": "gen_parent", "params": ["index", "shape", "parent_splits"],
      "calls": {"self._parse_index": "gen_parse_index"}},
     "GridAtLevel", "parent", None, "Z", None),
    ({"name": "gen_open_children", "params": ["index", "shape", "splits", "padding", "c"],
      "calls": {"super().children": "gen_children"}},
     "OpenGridAtLevel", "children", None, "Z", None),
    ({"name": "gen_open_neighborhood", "params": ["index", "shape", "window_size", "c"],
      "calls": {"super().neighborhood": "gen_neighborhood"}},
     "OpenGridAtLevel", "neighborhood", None, "Z", None),
    ({"name": "gen_open_parent", "params": ["index", "shape", "parent_splits", "parent_padding"],
      "calls": {"self._parse_index": "gen_parse_index"}},
     "OpenGridAtLevel", "parent", None, "Z", None),
    ({"name": "gen_open_at_step", "params": ["shp", "shifts", "si", "pd"]},
     "OpenGrid", "at", ("(si, pd)", "zip(self.splits[:level], self.padding[:level])"), "Z * Z", ["shp", "shifts"]),
    ({"name": "gen_nest_j_step", "params": ["j", "index", "p", "ww"], "axis_index": ("ax",),
      "alias": {"wgts[n + 1:, ax].prod()": "p"}},
     "FlatGridAtLevel", "index2flatindex", ("ax", "range(ww.size)"), "Z", ["j"]),
    ({"name": "gen_serial_dec_step", "params": ["tm", "w"], "emit": ("index.append(tmfl)",)},
     "FlatGridAtLevel", "flatindex2index", ("w", "wgt"), "Z * Z", ["tm", "tmfl"]),
    ({"name": "gen_index2coord", "params": ["index", "shape"], "ty": "Q"},
     "GridAtLevel", "index2coord", None, "Q", None),
    ({"name": "gen_coord2index", "params": ["coord", "shape"], "ty": "Q",
      "true_tests": ("np.issubdtype(dtype, np.integer)",)},
     "GridAtLevel", "coord2index", None, "Z", None),
    ({"name": "gen_open_index2coord", "params": ["index", "shape", "shifts"], "ty": "Q"},
     "OpenGridAtLevel", "index2coord", None, "Q", None),
    ({"name": "gen_open_coord2index", "params": ["coord", "shape", "shifts"], "ty": "Q",
      "true_tests": ("np.issubdtype(dtype, np.integer)",)},
     "OpenGridAtLevel", "coord2index", None, "Z", None),
]


def translate(path):
    src = open(path).read()
    try:
        tree = ast.parse(src)
    except SyntaxError as e:
        raise Unsupported("cannot parse %s: %s" % (path, e))
    sigs = {}
    for cfg, cls, meth, loop, rty, outs in TARGETS:
        if loop is None:
            f = _find_method(tree, cls, meth)
            a = f.args
            if a.vararg or a.kwarg or a.posonlyargs:
                continue
            sigs[cfg["name"]] = (cfg["params"], [x.arg for x in a.args[1:] if x.arg in cfg["params"]])
    zdefs, qdefs, segs = [], [], []
    for cfg, cls, meth, loop, rty, outs in TARGETS:
        fn = _find_method(tree, cls, meth)
        segs.append(ast.get_source_segment(src, fn) or "")
        t = Fn(cfg, sigs)
        if loop is None:
            t.stmts(fn.body)
            text = t.render(rty)
        else:
            node = _find_for(fn, loop[0], loop[1])
            t.stmts(node.body)
            text = t.render(rty, outs)
        comment = "(* %s.%s%s *)" % (cls, meth, "" if loop is None else ", body of `for %s in %s`" % loop)
        (qdefs if cfg.get("ty") == "Q" else zdefs).append(comment + "\n" + text)
    digest = hashlib.sha256("\n".join(segs).encode()).hexdigest()
    head = ("(* GENERATED by tr/c31_index.py from nifty/re/multi_grid/grid.py -- do not edit.\n"
            "   sha256 of the translated methods: %s *)\n"
            "From Coq Require Import ZArith QArith Qround.\nRequire Import NV.C31.Prim.\n" % digest)
    return (head + "Open Scope Z_scope.\n\n" + "\n\n".join(zdefs) + "\n\nOpen Scope Q_scope.\n\n" + "\n\n".join(qdefs) + "\n")


if __name__ == "__main__":
    import sys
    print(translate(sys.argv[1] if len(sys.argv) > 1 else "/repo/nifty/re/multi_grid/grid.py"))
