"""Fail-closed translator (expression mode) for the normalisation lines of the JAX amplitude models:

  nifty/re/correlated_field.py
    NonParametricAmplitude.__call__ : everything after `spectrum = jnp.exp(ln_spectrum)`
    MaternAmplitude.__call__        : everything after `spectrum = jnp.exp(ln_spectrum)`

-> coq/C28/Gen_Norm.v : Gallina functions over the reals (lists of R), in let-normal form,

    npa_tail    (kind_amplitude : bool) (mode_multiplicity spectrum : list R) (flu total_volume : R)
    matern_tail (kind_amplitude renormalize : bool) (mode_multiplicity spectrum : list R) (scl total_volume : R)

Whitelist: assignments / `/=` to plain names, `if`/`elif` on `self.kind == "amplitude"|"power"`
(also `self.kind.lower()`), `self.renormalize_amplitude`; expressions built from names, float
constants, `*`, `/`, `** 2`, `jnp.sqrt`, `jnp.sum`, `x[1:]`, `x.at[0].set(v)`, `return name`.  Scalars
and vectors are told apart by a small type inference.  `self.kind` is known to be one of the two
strings because `__init__` raises otherwise (checked here).  Anything else -> TranslationError."""
import ast
import os

from harness.common import TranslationError

VEC_ATTRS = {"self.grid.harmonic_grid.mode_multiplicity": "mode_multiplicity"}
SCA_ATTRS = {"self.grid.total_volume": "total_volume"}


def dotted(node):
    if isinstance(node, ast.Name):
        return node.id
    if isinstance(node, ast.Attribute):
        b = dotted(node.value)
        return None if b is None else b + "." + node.attr
    return None


class Tr:
    def __init__(self, vec_names, sca_names):
        self.types = {}
        for v in vec_names:
            self.types[v] = "vec"
        for s in sca_names:
            self.types[s] = "sca"

    # ---- conditions --------------------------------------------------------------------------
    def cond(self, t):
        d = dotted(t)
        if d == "self.renormalize_amplitude":
            return "renormalize"
        if isinstance(t, ast.Compare) and len(t.ops) == 1 and isinstance(t.ops[0], ast.Eq) \
                and isinstance(t.comparators[0], ast.Constant) and t.comparators[0].value in ("amplitude", "power"):
            left = t.left
            if isinstance(left, ast.Call) and isinstance(left.func, ast.Attribute) and left.func.attr == "lower" \
                    and not left.args:
                left = left.func.value
            if dotted(left) == "self.kind":
                return "kind_amplitude" if t.comparators[0].value == "amplitude" else "(negb kind_amplitude)"
        raise TranslationError("unsupported condition: " + ast.dump(t)[:200])

    # ---- expressions -> (coq, type) ----------------------------------------------------------
    def expr(self, e):
        if isinstance(e, ast.Constant) and isinstance(e.value, (int, float)) and not isinstance(e.value, bool):
            v = float(e.value)
            if v != int(v) or v < 0:
                raise TranslationError("unsupported constant %r" % e.value)
            return "(INR %d)" % int(v), "sca"
        d = dotted(e)
        if d is not None:
            if d in VEC_ATTRS:
                return VEC_ATTRS[d], "vec"
            if d in SCA_ATTRS:
                return SCA_ATTRS[d], "sca"
            if isinstance(e, ast.Name) and e.id in self.types:
                return e.id, self.types[e.id]
            raise TranslationError("unknown name %s" % d)
        if isinstance(e, ast.BinOp):
            if isinstance(e.op, ast.Pow):
                if not (isinstance(e.right, ast.Constant) and e.right.value == 2):
                    raise TranslationError("only ** 2 is supported")
                a, ta = self.expr(e.left)
                return ("(vsq %s)" % a, "vec") if ta == "vec" else ("(Rsqr %s)" % a, "sca")
            a, ta = self.expr(e.left)
            b, tb = self.expr(e.right)
            if isinstance(e.op, ast.Mult):
                if ta == "sca" and tb == "sca":
                    return "(%s * %s)%%R" % (a, b), "sca"
                if ta == "sca" and tb == "vec":
                    return "(vscale %s %s)" % (a, b), "vec"
                if ta == "vec" and tb == "sca":
                    return "(vscale %s %s)" % (b, a), "vec"
                return "(vmul %s %s)" % (a, b), "vec"
            if isinstance(e.op, ast.Div):
                if ta == "sca" and tb == "sca":
                    return "(%s / %s)%%R" % (a, b), "sca"
                raise TranslationError("division involving vectors is not supported")
            raise TranslationError("unsupported binary operator " + type(e.op).__name__)
        if isinstance(e, ast.Subscript):
            s = e.slice
            if isinstance(s, ast.Slice) and s.upper is None and s.step is None \
                    and isinstance(s.lower, ast.Constant) and s.lower.value == 1:
                a, ta = self.expr(e.value)
                if ta != "vec":
                    raise TranslationError("slice of a scalar")
                return "(tl %s)" % a, "vec"
            raise TranslationError("unsupported subscript: " + ast.dump(e)[:200])
        if isinstance(e, ast.Call):
            f = dotted(e.func)
            if f in ("jnp.sqrt", "jnp.sum") and len(e.args) == 1 and not e.keywords:
                a, ta = self.expr(e.args[0])
                if f == "jnp.sqrt":
                    return ("(vsqrt %s)" % a, "vec") if ta == "vec" else ("(sqrt %s)" % a, "sca")
                if ta != "vec":
                    raise TranslationError("jnp.sum of a scalar")
                return "(vsum %s)" % a, "sca"
            # x.at[0].set(v)
            if isinstance(e.func, ast.Attribute) and e.func.attr == "set" and len(e.args) == 1 and not e.keywords:
                sub = e.func.value
                if isinstance(sub, ast.Subscript) and isinstance(sub.slice, ast.Constant) and sub.slice.value == 0 \
                        and isinstance(sub.value, ast.Attribute) and sub.value.attr == "at":
                    a, ta = self.expr(sub.value.value)
                    v, tv = self.expr(e.args[0])
                    if ta != "vec" or tv != "sca":
                        raise TranslationError("bad .at[0].set")
                    return "(set0 %s %s)" % (v, a), "vec"
            raise TranslationError("unsupported call: " + ast.dump(e)[:200])
        raise TranslationError("unsupported expression: " + ast.dump(e)[:200])

    # ---- statements ---------------------------------------------------------------------------
    def assigned(self, stmts):
        out = []
        for s in stmts:
            if isinstance(s, ast.Assign) and len(s.targets) == 1 and isinstance(s.targets[0], ast.Name):
                out.append(s.targets[0].id)
            elif isinstance(s, ast.AugAssign) and isinstance(s.target, ast.Name):
                out.append(s.target.id)
            elif isinstance(s, ast.If):
                out += self.assigned(s.body) + self.assigned(s.orelse)
            elif isinstance(s, ast.Expr) and isinstance(s.value, ast.Constant):
                pass
            else:
                raise TranslationError("unsupported statement: " + ast.dump(s)[:200])
        seen = []
        for v in out:
            if v not in seen:
                seen.append(v)
        return seen

    def block(self, stmts, cont):
        """Translate a statement list followed by the continuation text `cont` (a Coq term using
        the current variables)."""
        if not stmts:
            return cont
        s, rest = stmts[0], stmts[1:]
        if isinstance(s, ast.Expr) and isinstance(s.value, ast.Constant):
            return self.block(rest, cont)
        if isinstance(s, ast.Assign):
            if len(s.targets) != 1 or not isinstance(s.targets[0], ast.Name):
                raise TranslationError("unsupported assignment target")
            v = s.targets[0].id
            e, t = self.expr(s.value)
            self.types[v] = t
            return "let %s := %s in\n  %s" % (v, e, self.block(rest, cont))
        if isinstance(s, ast.AugAssign):
            if not isinstance(s.target, ast.Name) or not isinstance(s.op, ast.Div):
                raise TranslationError("only `name /= expr` is supported")
            v = s.target.id
            if self.types.get(v) != "sca":
                raise TranslationError("/= on a non-scalar")
            e, t = self.expr(s.value)
            if t != "sca":
                raise TranslationError("/= by a vector")
            return "let %s := (%s / %s)%%R in\n  %s" % (v, v, e, self.block(rest, cont))
        if isinstance(s, ast.If):
            vs = self.assigned(s.body + s.orelse)
            if not vs:
                raise TranslationError("if without assignments")
            tup = vs[0] if len(vs) == 1 else "(" + ", ".join(vs) + ")"
            pat = vs[0] if len(vs) == 1 else "'(" + ", ".join(vs) + ")"
            before = dict(self.types)
            c = self.cond(s.test)
            tb = Tr([], [])
            tb.types = dict(before)
            then = tb.block(s.body, tup)
            te = Tr([], [])
            te.types = dict(before)
            if s.orelse:
                orelse = s.orelse
                # `elif <cond2>:` without else, where cond2 is the complement of cond on self.kind
                if len(orelse) == 1 and isinstance(orelse[0], ast.If) and not orelse[0].orelse:
                    c2 = self.cond(orelse[0].test)
                    comp = {("kind_amplitude", "(negb kind_amplitude)"), ("(negb kind_amplitude)", "kind_amplitude")}
                    if (c, c2) not in comp:
                        raise TranslationError("elif is not the complement of the if condition")
                    orelse = orelse[0].body
                els = te.block(orelse, tup)
            else:
                for v in vs:
                    if v not in before:
                        raise TranslationError("variable %s may be undefined after if" % v)
                els = tup
            for v in vs:
                ta, tb_ = tb.types.get(v), te.types.get(v)
                if ta is None or tb_ is None or ta != tb_:
                    raise TranslationError("variable %s has inconsistent type/definedness across branches" % v)
                self.types[v] = ta
            return "let %s := (if %s then\n  %s\n  else\n  %s) in\n  %s" % (pat, c, then, els, self.block(rest, cont))
        if isinstance(s, ast.Return):
            if rest:
                raise TranslationError("statements after return")
            e, t = self.expr(s.value)
            if t != "vec":
                raise TranslationError("return of a scalar")
            return e
        raise TranslationError("unsupported statement: " + ast.dump(s)[:200])


def find_call(tree, clsname):
    cls = [n for n in tree.body if isinstance(n, ast.ClassDef) and n.name == clsname]
    if len(cls) != 1:
        raise TranslationError("class %s not found" % clsname)
    fn = [n for n in cls[0].body if isinstance(n, ast.FunctionDef) and n.name == "__call__"]
    init = [n for n in cls[0].body if isinstance(n, ast.FunctionDef) and n.name == "__init__"]
    if len(fn) != 1 or len(init) != 1:
        raise TranslationError("%s.__call__/__init__ not found" % clsname)
    return fn[0], init[0]


def check_kinds_validated(init, clsname):
    """__init__ must contain:  supported_kinds = {"amplitude", "power"} ; if self.kind not in supported_kinds: raise"""
    src = ast.unparse(init)
    ok1 = "supported_kinds = {'amplitude', 'power'}" in src or "supported_kinds = {'power', 'amplitude'}" in src
    ok2 = "if self.kind not in supported_kinds:" in src and "raise ValueError" in src
    ok3 = "self.kind = kind.lower()" in src
    if not (ok1 and ok2 and ok3):
        raise TranslationError("%s.__init__ no longer validates self.kind in {amplitude, power}" % clsname)


def tail_after_exp(fn):
    """Statements of fn after `spectrum = jnp.exp(ln_spectrum)` (exactly one such statement, top level)."""
    idx = [i for i, s in enumerate(fn.body)
           if isinstance(s, ast.Assign) and len(s.targets) == 1 and isinstance(s.targets[0], ast.Name)
           and s.targets[0].id == "spectrum" and ast.unparse(s.value) == "jnp.exp(ln_spectrum)"]
    if len(idx) != 1:
        raise TranslationError("`spectrum = jnp.exp(ln_spectrum)` not found exactly once in %s" % fn.name)
    # nothing before it may define the names the tail uses other than the declared inputs
    return fn.body[idx[0] + 1:], fn.body[:idx[0]]


def names_defined(stmts):
    out = set()
    for s in ast.walk(ast.Module(body=list(stmts), type_ignores=[])):
        if isinstance(s, ast.Name) and isinstance(s.ctx, ast.Store):
            out.add(s.id)
    return out


def translate(repo):
    path = os.path.join(repo, "nifty/re/correlated_field.py")
    tree = ast.parse(open(path).read())
    out = ["(* GENERATED by tr/c28_norm.py from nifty/re/correlated_field.py -- do not edit. *)",
           "From Coq Require Import Reals List Bool.", "Import ListNotations.",
           "Require Import NV.C28.Prelude.", "Local Open Scope R_scope.", ""]

    # ---- NonParametricAmplitude -----------------------------------------------------------------
    fn, init = find_call(tree, "NonParametricAmplitude")
    check_kinds_validated(init, "NonParametricAmplitude")
    tail, head = tail_after_exp(fn)
    pre = names_defined(head)
    for need in ("mode_multiplicity", "flu"):
        if need not in pre:
            raise TranslationError("NonParametricAmplitude.__call__: `%s` is not defined before the tail" % need)
    # mode_multiplicity must be the grid's multiplicities, flu the fluctuations (or 1.0)
    hsrc = "\n".join(ast.unparse(s) for s in head)
    if "mode_multiplicity = self.grid.harmonic_grid.mode_multiplicity" not in hsrc:
        raise TranslationError("mode_multiplicity is no longer self.grid.harmonic_grid.mode_multiplicity")
    if "flu = 1.0 if self.fluctuations is None else self.fluctuations(primals)" not in hsrc:
        raise TranslationError("flu is no longer the value of self.fluctuations")
    tr = Tr(["mode_multiplicity", "spectrum"], ["flu"])
    body = tr.block(tail, "")
    out.append("Definition npa_tail (kind_amplitude : bool) (mode_multiplicity spectrum : list R) "
               "(flu total_volume : R) : list R :=\n  %s." % body)
    out.append("")

    # ---- MaternAmplitude ------------------------------------------------------------------------
    fn, init = find_call(tree, "MaternAmplitude")
    check_kinds_validated(init, "MaternAmplitude")
    tail, head = tail_after_exp(fn)
    hsrc = "\n".join(ast.unparse(s) for s in head)
    if "scl = self.scale(primals)" not in hsrc or "scl = 1.0" not in hsrc:
        raise TranslationError("scl is no longer the value of self.scale")
    tr = Tr(["spectrum"], ["scl"])
    body = tr.block(tail, "")
    out.append("Definition matern_tail (kind_amplitude renormalize : bool) (mode_multiplicity spectrum : list R) "
               "(scl total_volume : R) : list R :=\n  %s." % body)
    out.append("")
    return "\n".join(out)
