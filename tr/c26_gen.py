"""C26 front end of the translator: regenerates coq/C26/Gen_helpers.v from the current source of
nifty/cl/utilities.py, nifty/cl/minimization/sample_list.py and nifty/cl/probing.py."""
import ast
import os

from harness.common import TranslationError
from . import c26_pyfun as T


def _calls(tree_node, pred):
    return [n for n in ast.walk(tree_node) if isinstance(n, ast.Call) and pred(n)]


def _is_name_call(n, name):
    return isinstance(n.func, ast.Name) and n.func.id == name


def gen_sharerange(repo):
    p = os.path.join(repo, "nifty/cl/utilities.py")
    src = open(p).read()
    tree = ast.parse(src)
    return T.tr_function(src, tree, "shareRange", "shareRange",
                         [("nwork", "Z"), ("nshares", "Z"), ("myshare", "Z")], monadic=False)


def generate(repo):
    segs = []
    out = []
    # ---- utilities.shareRange ----
    txt, seg = gen_sharerange(repo)
    out.append(txt)
    segs.append(seg)

    # ---- sample_list.py ----
    p = os.path.join(repo, "nifty/cl/minimization/sample_list.py")
    src = open(p).read()
    tree = ast.parse(src)
    txt, seg = T.tr_function(src, tree, "_consecutive_length", "consecutive_length", [("lst", "L")],
                             monadic=True, fuel="S (List.length lst)")
    out.append(txt)
    segs.append(seg)

    # _sample_file_name: `if not isinstance(isample, int): raise TypeError` + `return f"..."`
    fd = T.find_def(tree, "_sample_file_name")
    body = T.strip_doc(fd.body)
    if [a.arg for a in fd.args.args] != ["file_name_base", "isample"] or len(body) != 2 \
            or not isinstance(body[0], ast.If) or not isinstance(body[1], ast.Return):
        raise TranslationError("_sample_file_name: unexpected shape")
    if ast.unparse(body[0]) != "if not isinstance(isample, int):\n    raise TypeError":
        raise TranslationError("_sample_file_name: unexpected type check: " + ast.unparse(body[0]))
    parts = T.fstring_parts(body[1].value, None)
    pieces = []
    for kind, v in parts:
        if kind == "lit":
            pieces.append(T.coq_str(v))
        elif v == "file_name_base":
            pieces.append("file_name_base")
        elif v == "isample":
            pieces.append("dec isample")
        else:
            raise TranslationError("_sample_file_name: unknown variable " + v)
    out.append(T.comment(T.segment(src, fd)) +
               "Definition sample_file_name (file_name_base : name) (isample : Z) : name :=\n  (%s)%%list.\n" % " ++ ".join(pieces))
    segs.append(T.segment(src, fd))

    # mean file name: argument of _save_to_disk in ResidualSampleList.save and of _load_from_disk
    # in ResidualSampleList.load / load_mean -- all must be the same f-string
    cls = [n for n in tree.body if isinstance(n, ast.ClassDef) and n.name == "ResidualSampleList"]
    if len(cls) != 1:
        raise TranslationError("class ResidualSampleList not found")
    names = []
    for meth, fn in (("save", "_save_to_disk"), ("load", "_load_from_disk"), ("load_mean", "_load_from_disk")):
        md = T.find_def(tree, meth, "ResidualSampleList")
        cs = [c for c in _calls(md, lambda n: _is_name_call(n, fn)) if isinstance(c.args[0], ast.JoinedStr)]
        if len(cs) != 1:
            raise TranslationError("ResidualSampleList.%s: expected exactly one %s(f\"...\")" % (meth, fn))
        names.append(ast.unparse(cs[0].args[0]))
        node = cs[0].args[0]
    if len(set(names)) != 1:
        raise TranslationError("mean file names differ between save/load/load_mean: %r" % names)
    pieces = []
    for kind, v in T.fstring_parts(node, None):
        if kind == "lit":
            pieces.append(T.coq_str(v))
        elif v == "file_name_base":
            pieces.append("file_name_base")
        else:
            raise TranslationError("mean file name: unknown variable " + v)
    out.append(T.comment("mean file: " + names[0]) +
               "Definition mean_file_name (file_name_base : name) : name :=\n  (%s)%%list.\n" % " ++ ".join(pieces))
    segs.append(names[0])

    # SampleList.save: [_ensure_proper_sample_list_ending(...), (optionally: the master unlinks a
    # stale mean file when overwrite is set), the save loop].  The optional statement (present
    # since the fix "SampleList.save left a stale mean file ...") becomes a flag of the model.
    sd = T.find_def(tree, "save", "SampleList")
    sb = [st for st in T.strip_doc(sd.body)]
    want_unlink = ("with ensure_all_tasks_succeed(self.comm):\n    if overwrite and self.MPI_master:\n"
                   "        pathlib.Path(%s).unlink(missing_ok=True)" % names[0])
    if len(sb) == 3 and ast.unparse(sb[1]) == want_unlink:
        flag = "true"
    elif len(sb) == 2:
        flag = "false"
    else:
        raise TranslationError("SampleList.save: unexpected statements: " + ast.unparse(sd)[:600])
    if not (isinstance(sb[0], ast.Expr) and isinstance(sb[0].value, ast.Call) and _is_name_call(sb[0].value, "_ensure_proper_sample_list_ending")
            and isinstance(sb[-1], ast.With)):
        raise TranslationError("SampleList.save: unexpected shape")
    out.append(T.comment("SampleList.save, between the ending check and the save loop:\n" + (ast.unparse(sb[1]) if flag == "true" else "(nothing)")) +
               "Definition plain_save_unlinks_mean : bool := %s.\n" % flag)
    segs.append(ast.unparse(sd))

    # _list_local_sample_files: the regular expression and the index extraction
    fd = T.find_def(tree, "_list_local_sample_files", "SampleListBase")
    ms = _calls(fd, lambda n: isinstance(n.func, ast.Attribute) and isinstance(n.func.value, ast.Name)
                and n.func.value.id == "re")
    if len(ms) != 1 or ms[0].func.attr != "match" or len(ms[0].args) != 2 or ms[0].keywords:
        raise TranslationError("_list_local_sample_files: expected exactly one re.match(pattern, name)")
    parts = T.fstring_parts(ms[0].args[0], None)
    if len(parts) != 2 or parts[0] != ("var", "base_file") or parts[1][0] != "lit":
        raise TranslationError("_list_local_sample_files: unexpected pattern " + ast.unparse(ms[0].args[0]))
    items = T.regex_items(parts[1][1])
    out.append(T.comment("re.match(%s, ff)   [the base name is interpolated unescaped; the model treats it as literal text, "
                         "which is exact for bases without regular-expression metacharacters]" % ast.unparse(ms[0].args[0])) +
               "Definition sample_pattern (base_file : name) : list ritem :=\n  (map RLit base_file ++ [%s])%%list.\n" % "; ".join(items))
    segs.append(ast.unparse(ms[0]))
    lams = [n for n in ast.walk(fd) if isinstance(n, ast.Lambda)]
    if len(lams) != 1:
        raise TranslationError("_list_local_sample_files: expected exactly one lambda")
    lam = lams[0]
    b = lam.body
    ok = (isinstance(b, ast.Call) and _is_name_call(b, "int") and len(b.args) == 1 and isinstance(b.args[0], ast.Subscript)
          and isinstance(b.args[0].value, ast.Call) and isinstance(b.args[0].value.func, ast.Attribute)
          and b.args[0].value.func.attr == "split" and isinstance(b.args[0].value.func.value, ast.Name)
          and b.args[0].value.func.value.id == lam.args.args[0].arg and len(b.args[0].value.args) == 1
          and isinstance(b.args[0].value.args[0], ast.Constant) and isinstance(b.args[0].value.args[0].value, str)
          and len(b.args[0].value.args[0].value) == 1
          and isinstance(b.args[0].slice, ast.UnaryOp) and isinstance(b.args[0].slice.op, ast.USub)
          and isinstance(b.args[0].slice.operand, ast.Constant) and isinstance(b.args[0].slice.operand.value, int)
          and b.args[0].slice.operand.value >= 1)
    if not ok:
        raise TranslationError("_list_local_sample_files: unexpected index extraction " + ast.unparse(lam))
    sep = b.args[0].value.args[0].value
    k = b.args[0].slice.operand.value
    if not (32 <= ord(sep) < 127) or sep == '"':
        raise TranslationError("unsupported separator")
    out.append(T.comment(ast.unparse(lam)) +
               "Definition file_index (x : name) : result Z :=\n  bind (nth_from_end %d (split_on \"%s\"%%char x)) int_of_name.\n" % (k, sep))
    segs.append(ast.unparse(lam))

    # ---- probing.StatCalculator ----
    p = os.path.join(repo, "nifty/cl/probing.py")
    src = open(p).read()
    tree = ast.parse(src)
    init = T.find_def(tree, "__init__", "StatCalculator")
    ib = T.strip_doc(init.body)
    if len(ib) != 1 or ast.unparse(ib[0]) != "self._count = 0":
        raise TranslationError("StatCalculator.__init__: unexpected body " + ast.unparse(init))
    attrs = {"_count": ("sc_count", "Z"), "_mean": ("sc_mean_", "F"), "_M2": ("sc_M2", "F")}
    st = ["Section Stat.\nVariable F : Type.\nVariable O : fops F.\n"
          "Notation fzero := (o_zero F O). Notation fone := (o_one F O). Notation fadd := (o_add F O).\n"
          "Notation fsub := (o_sub F O). Notation fmul := (o_mul F O). Notation fdiv := (o_div F O). Notation fofZ := (o_ofZ F O).\n"
          "Record sc := mk_sc { sc_count : Z; sc_mean_ : F; sc_M2 : F }.\n"
          "Definition set_sc_count (s : sc) (v : Z) := mk_sc v (sc_mean_ s) (sc_M2 s).\n"
          "Definition set_sc_mean_ (s : sc) (v : F) := mk_sc (sc_count s) v (sc_M2 s).\n"
          "Definition set_sc_M2 (s : sc) (v : F) := mk_sc (sc_count s) (sc_mean_ s) v.\n"
          + T.comment(T.segment(src, init) + "\n   (_mean and _M2 do not exist before the first add; the model holds dummies that are never read)") +
          "Definition sc_init : sc := let _ := O in mk_sc 0 fzero fzero.\n"]
    segs.append(T.segment(src, init))
    for nm, cn in (("mean", "sc_mean"), ("var", "sc_var")):
        fd = T.find_def(tree, nm, "StatCalculator")
        if [ast.unparse(d) for d in fd.decorator_list] != ["property"]:
            raise TranslationError("StatCalculator.%s is not a plain property" % nm)
        txt, seg = T.tr_method(src, tree, "StatCalculator", nm, cn, [], attrs, {}, False)
        st.append(txt)
        segs.append(seg)
    fd = T.find_def(tree, "add", "StatCalculator")
    if fd.decorator_list:
        raise TranslationError("StatCalculator.add is decorated")
    txt, seg = T.tr_method(src, tree, "StatCalculator", "add", "sc_add", [("value", "F")], attrs,
                           {"mean": ("sc_mean", "F"), "var": ("sc_var", "F")}, True)
    st.append(txt)
    segs.append(seg)
    st.append("End Stat.\n")
    out.append("\n".join(st))

    head = ("(* GENERATED by tr/c26_gen.py -- do not edit.  sha256 of the translated source segments:\n   %s *)\n"
            "From Coq Require Import List ZArith Bool Ascii String.\nImport ListNotations.\n"
            "Require Import NV.C26.Prelude.\nOpen Scope Z_scope.\n\n" % T.sha(segs))
    return head + "\n".join(out)
