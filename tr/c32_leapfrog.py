"""Translator for C32: straight-line numeric functions of nifty/re/hmc.py and hmc_oo.py -> Gallina.

Python `ast` -> text of coq/C32/Gen_Leapfrog.v.  Whitelist, fail closed (raises Unsupported on any
statement / expression form it does not know).  Translated, statement by statement:
  hmc.py     leapfrog_step, flip_momentum, is_euclidean_uturn, total_energy_of_qp
  hmc_oo.py  _Sampler.__init__: nested `kinetic_energy`, the lambda bound to `kinetic_energy_gradient`
Typing: S scalar, V array (index function, every operation element-wise), QP, B bool, function types
VV (array -> array), VVV, VS.  `vdot` sums over the array, so functions using it get a leading
dimension parameter `d`.  Dropped, only in exactly these forms: doc strings, `global _DEBUG_FLAG`
and `if _DEBUG_FLAG: io_callback(_DEBUG_..., None, x)` (side effect on a debug list only).
"""
import ast
import os


class Unsupported(Exception):
    pass


def _txt(n):
    return ast.unparse(n)


FN_TYPES = {"VV": (["V"], "V"), "VVV": (["V", "V"], "V"), "VS": (["V"], "S")}
COQ_TY = {"S": "T", "V": "vec T", "QP": "QP T", "B": "bool", "VV": "vec T -> vec T",
          "VVV": "vec T -> vec T -> vec T", "VS": "vec T -> T"}


class Fn:
    def __init__(self, name, params, ret, uses_d):
        self.name, self.ret, self.uses_d = name, ret, uses_d
        self.env = dict(params)           # name -> type
        self.lets = []

    def fail(self, node, why):
        raise Unsupported("%s: %s: `%s`" % (self.name, why, _txt(node)[:120]))

    def expr(self, e):
        """returns (coq text, type)"""
        if isinstance(e, ast.Name):
            if e.id not in self.env:
                self.fail(e, "free variable")
            return e.id, self.env[e.id]
        if isinstance(e, ast.Attribute):
            if isinstance(e.value, ast.Name) and self.env.get(e.value.id) == "QP" and e.attr in ("position", "momentum"):
                return "(%s %s)" % (e.attr, e.value.id), "V"
            self.fail(e, "attribute")
        if isinstance(e, ast.Constant):
            v = e.value
            if isinstance(v, bool) or not isinstance(v, (int, float)) or v != int(v):
                self.fail(e, "constant")
            return "(oZ O (%d)%%Z)" % int(v), "S"
        if isinstance(e, ast.UnaryOp) and isinstance(e.op, ast.USub):
            a, t = self.expr(e.operand)
            if t == "S":
                return "(oopp O %s)" % a, "S"
            if t == "V":
                return "(vneg O %s)" % a, "V"
            self.fail(e, "negation of type " + t)
        if isinstance(e, ast.BinOp):
            if isinstance(e.op, ast.Pow):
                a, t = self.expr(e.left)
                if isinstance(e.right, ast.Constant) and e.right.value == 2 and not isinstance(e.right.value, bool):
                    if t == "V":
                        return "(vmul O %s %s)" % (a, a), "V"
                    if t == "S":
                        return "(omul O %s %s)" % (a, a), "S"
                self.fail(e, "power")
            a, ta = self.expr(e.left)
            b, tb = self.expr(e.right)
            op = type(e.op).__name__
            tab = {
                ("Add", "S", "S"): ("(oadd O %s %s)", "S"), ("Sub", "S", "S"): ("(osub O %s %s)", "S"),
                ("Mult", "S", "S"): ("(omul O %s %s)", "S"), ("Div", "S", "S"): ("(odiv O %s %s)", "S"),
                ("Add", "V", "V"): ("(vadd O %s %s)", "V"), ("Sub", "V", "V"): ("(vsub O %s %s)", "V"),
                ("Mult", "V", "V"): ("(vmul O %s %s)", "V"),
                ("Mult", "S", "V"): ("(vscale O %s %s)", "V"),
                ("Div", "V", "S"): ("(vdivs O %s %s)", "V"),
                ("BitAnd", "B", "B"): ("(andb %s %s)", "B"),
            }
            if (op, ta, tb) == ("Mult", "V", "S"):
                return "(vscale O %s %s)" % (b, a), "V"
            if (op, ta, tb) not in tab:
                self.fail(e, "operator %s on %s,%s" % (op, ta, tb))
            f, t = tab[(op, ta, tb)]
            return f % (a, b), t
        if isinstance(e, ast.Compare):
            if len(e.ops) == 1 and isinstance(e.ops[0], ast.Lt):
                a, ta = self.expr(e.left)
                b, tb = self.expr(e.comparators[0])
                if ta == tb == "S":
                    return "(oltb O %s %s)" % (a, b), "B"
            self.fail(e, "comparison")
        if isinstance(e, ast.Call):
            if not isinstance(e.func, ast.Name):
                self.fail(e, "call")
            f = e.func.id
            if f == "QP":
                if e.args or sorted(k.arg for k in e.keywords) != ["momentum", "position"]:
                    self.fail(e, "QP constructor")
                kw = {k.arg: self.expr(k.value) for k in e.keywords}
                if kw["position"][1] != "V" or kw["momentum"][1] != "V":
                    self.fail(e, "QP constructor types")
                return "(mkQP %s %s)" % (kw["position"][0], kw["momentum"][0]), "QP"
            if e.keywords:
                self.fail(e, "keyword call")
            args = [self.expr(a) for a in e.args]
            if f == "vdot" and f not in self.env:
                if [t for _, t in args] != ["V", "V"] or not self.uses_d:
                    self.fail(e, "vdot")
                return "(vdot O d %s %s)" % (args[0][0], args[1][0]), "S"
            if self.env.get(f) in FN_TYPES:
                at, rt = FN_TYPES[self.env[f]]
                if [t for _, t in args] != at:
                    self.fail(e, "argument types")
                return "(%s %s)" % (f, " ".join(a for a, _ in args)), rt
            self.fail(e, "unknown callee")
        self.fail(e, "expression form")

    def body(self, stmts):
        ret = None
        for i, s in enumerate(stmts):
            if ret is not None:
                self.fail(s, "statement after return")
            if isinstance(s, ast.Expr) and isinstance(s.value, ast.Constant) and isinstance(s.value.value, str):
                continue
            if isinstance(s, ast.Global) and s.names == ["_DEBUG_FLAG"]:
                continue
            if isinstance(s, ast.If) and _txt(s.test) == "_DEBUG_FLAG" and not s.orelse and all(
                    isinstance(b, ast.Expr) and isinstance(b.value, ast.Call) and _txt(b.value.func) == "io_callback"
                    and len(b.value.args) == 3 and _txt(b.value.args[0]).startswith("_DEBUG_") and _txt(b.value.args[1]) == "None"
                    for b in s.body):
                continue
            if isinstance(s, ast.Assign) and len(s.targets) == 1 and isinstance(s.targets[0], ast.Name):
                v, t = self.expr(s.value)
                n = s.targets[0].id
                if n in self.env and self.env[n] in FN_TYPES:
                    self.fail(s, "assignment to a function parameter")
                self.lets.append((n, v, "(* %s *)" % _txt(s).replace("*)", "* )")))
                self.env[n] = t
                continue
            if isinstance(s, ast.Return) and s.value is not None:
                v, t = self.expr(s.value)
                if t != self.ret:
                    self.fail(s, "return type %s, expected %s" % (t, self.ret))
                ret = (v, "(* %s *)" % _txt(s).replace("*)", "* )"))
                continue
            self.fail(s, "statement form")
        if ret is None:
            raise Unsupported("%s: no return" % self.name)
        return ret


def _emit(name, pyparams, types, ret, uses_d, stmts):
    if sorted(pyparams) != sorted(types):
        raise Unsupported("%s: parameters %r, expected %r" % (name, pyparams, sorted(types)))
    fn = Fn(name, {p: types[p] for p in pyparams}, ret, uses_d)
    r, rc = fn.body(stmts)
    sig = ("(d : nat) " if uses_d else "") + " ".join("(%s : %s)" % (p, COQ_TY[types[p]]) for p in pyparams)
    out = ["  Definition %s %s : %s :=" % (name, sig, COQ_TY[ret])]
    for n, v, c in fn.lets:
        out.append("    %s\n    let %s := %s in" % (c, n, v))
    out.append("    %s\n    %s." % (rc, r))
    return "\n".join(out) + "\n"


def _params(fdef):
    a = fdef.args
    if a.vararg or a.kwarg or a.posonlyargs or a.defaults or any(d is not None for d in a.kw_defaults):
        raise Unsupported("%s: unsupported signature" % fdef.name)
    return [x.arg for x in a.args + a.kwonlyargs]


def _find_fn(tree, name):
    fs = [n for n in tree.body if isinstance(n, ast.FunctionDef) and n.name == name]
    if len(fs) != 1:
        raise Unsupported("function %s not found exactly once" % name)
    return fs[0]


def translate(repo):
    hmc = ast.parse(open(os.path.join(repo, "nifty/re/hmc.py")).read())
    oo = ast.parse(open(os.path.join(repo, "nifty/re/hmc_oo.py")).read())
    parts = []
    specs = [
        ("leapfrog_step", {"potential_energy_gradient": "VV", "kinetic_energy_gradient": "VVV", "step_size": "S",
                           "inverse_mass_matrix": "V", "qp": "QP"}, "QP", False),
        ("flip_momentum", {"qp": "QP"}, "QP", False),
        ("is_euclidean_uturn", {"qp_left": "QP", "qp_right": "QP"}, "B", True),
        ("total_energy_of_qp", {"qp": "QP", "potential_energy": "VS", "kinetic_energy_w_inv_mass": "VS"}, "S", False),
    ]
    for name, types, ret, uses_d in specs:
        f = _find_fn(hmc, name)
        parts.append(_emit(name, _params(f), types, ret, uses_d, f.body))
    # hmc_oo.py: class _Sampler, __init__
    cls = [n for n in oo.body if isinstance(n, ast.ClassDef) and n.name == "_Sampler"]
    if len(cls) != 1:
        raise Unsupported("class _Sampler not found")
    init = [n for n in cls[0].body if isinstance(n, ast.FunctionDef) and n.name == "__init__"]
    if len(init) != 1:
        raise Unsupported("_Sampler.__init__ not found")
    ke = [n for n in init[0].body if isinstance(n, ast.FunctionDef) and n.name == "kinetic_energy"]
    if len(ke) != 1:
        raise Unsupported("nested kinetic_energy not found")
    parts.append(_emit("kinetic_energy", _params(ke[0]), {"inverse_mass_matrix": "V", "momentum": "V"}, "S", True, ke[0].body))
    lam = [n for n in init[0].body if isinstance(n, ast.Assign) and len(n.targets) == 1
           and _txt(n.targets[0]) == "kinetic_energy_gradient" and isinstance(n.value, ast.Lambda)]
    if len(lam) != 1:
        raise Unsupported("kinetic_energy_gradient lambda not found")
    la = lam[0].value
    lp = [x.arg for x in la.args.args]
    if len(lp) != 2 or la.args.vararg or la.args.kwarg or la.args.kwonlyargs or la.args.defaults:
        raise Unsupported("kinetic_energy_gradient lambda signature")
    parts.append(_emit("kinetic_energy_gradient", lp, {lp[0]: "V", lp[1]: "V"}, "V", False,
                       [ast.Return(value=la.body)]))
    # how the stepper is assembled must be what the model assumes
    want = "self.stepper = partial(leapfrog_step, potential_energy_gradient, kinetic_energy_gradient)"
    if not any(isinstance(n, ast.Assign) and _txt(n) == want for n in init[0].body):
        raise Unsupported("_Sampler.__init__: stepper is not `%s`" % want)
    head = ("(* GENERATED by tr/c32_leapfrog.py from nifty/re/hmc.py and nifty/re/hmc_oo.py -- do not edit. *)\n"
            "From Coq Require Import ZArith List Bool.\nRequire Import NV.C32.Model.\n\n"
            "Section Gen.\n  Context {T : Type} (O : Ops T).\n\n")
    return head + "\n".join(parts) + "End Gen.\n"


if __name__ == "__main__":
    import sys
    print(translate(sys.argv[1] if len(sys.argv) > 1 else "/repo"))
