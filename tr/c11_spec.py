"""C11: per-pixel formulas of the classic likelihood energies, translated from
nifty/cl/operators/energy_operators.py into coq/C11/Gen_Energies.v.

Field algebra is read pixel-wise: `a.vdot(b)` is conj(a)*b, `.sum()` is the identity (an energy is
the sum over pixels of the generated per-pixel function; the correspondence checks exactly that
against the implementation), `.log()/.sqrt()/.reciprocal()/.arctan()/.log1p()` are the real
functions, `.real` the real part.  In get_transformation the operator expressions are read as their
value at the point x: `Operator.identity_operator(dom)` is x, `ScalingOperator(dom, c)` is c*x,
`makeOp(f)` is f*x, `FieldAdapter(dom, key)` is the component `key`, `op.scale(c)` is c*op,
`K.adjoint @ E` puts E into component K of the (keyed) result.
Complex residuals are pairs (re, im) inside the translator; only real expressions are emitted.
"""
import os

from . import realexpr as T
from .realexpr import V

FREE = []


def _un(sym):
    return lambda tr, o, args, raw: T.mkf("f", sym, [o])


def _m_vdot(tr, o, args, raw):
    T._arity(args, 1)
    return T.vdot(o, args[0])


def _m_scale(tr, o, args, raw):
    T._arity(args, 1)
    if T.is_cx(o) or T.is_cx(args[0]):
        return T.c_arith("*", args[0], o)
    return T.mk("*", args[0], o)


def _m_log1p(tr, o, args, raw):
    return T.mkf("f", "ln", [T.mk("+", T.C_(1), o)])


METHODS = {
    "log": _un("ln"), "sqrt": _un("sqrt"), "exp": _un("exp"), "arctan": _un("atan"),
    "log1p": _m_log1p,
    "reciprocal": lambda tr, o, args, raw: T.mk("/", T.C_(1), o),
    "vdot": _m_vdot,
    "sum": lambda tr, o, args, raw: o,
    "scale": _m_scale,
    "at": lambda tr, o, args, raw: o,
}
ATTRS = {"real": lambda tr, o: T.c_real(o), "val": lambda tr, o: o}


def funcs(x="x"):
    f = T.np_funcs()
    f.update({
        "Operator.identity_operator": lambda tr, args, kw: V(x),
        "ScalingOperator": lambda tr, args, kw: T.mk("*", args[1], V(x)),
        "makeOp": lambda tr, args, kw: T.mk("*", args[0], V(x)),
        "full": lambda tr, args, kw: args[1],
    })
    return f


def build(repo):
    src = T.Source(os.path.join(repo, "nifty/cl/operators/energy_operators.py"), repo)
    defs = []
    noflags = {"not x.want_metric": True}

    def tr(qual, inputs, outputs, flags=None, fns=None, bound=(), keys=None):
        fl = dict(noflags)
        fl.update(flags or {})
        cfg = T.Cfg(funcs=fns or funcs(), methods=METHODS, attrs=ATTRS, flags=fl, keys=keys)
        return T.translate(src, qual, cfg, inputs, outputs, bound=bound)

    # ---- Gaussian: QuadraticFormOperator (diagonal kernel icov), Squared2NormOperator, residual ----
    fq = funcs()
    fq["self._op"] = lambda tr_, args, kw: T.mk("*", V("icov"), args[0])
    defs += tr("QuadraticFormOperator.apply", {"x": V("x")}, [("gauss_quadform", ["icov", "x"], "return")],
               flags={"x.jac is None": True}, fns=fq)
    defs += tr("Squared2NormOperator.apply", {"x": V("x")}, [("gauss_sqnorm", ["x"], "return")],
               flags={"x.jac is None": True})
    defs += tr("GaussianEnergy.apply", {"x": V("x"), "self._data": V("d")},
               [("gauss_residual", ["d", "x"], "residual")], flags={"self._data is None": False, "x.want_metric": False})

    # ---- Poisson ----------------------------------------------------------------------------------
    defs += tr("PoissonianEnergy.apply", {"x": V("x"), "self._d": V("d")}, [("poisson_E", ["d", "x"], "res")])
    defs += tr("PoissonianEnergy.get_transformation", {}, [("poisson_t", ["x"], "return.1")])

    # ---- inverse gamma ----------------------------------------------------------------------------
    defs += tr("InverseGammaEnergy.apply", {"x": V("x"), "self._alphap1": V("alphap1"), "self._beta": V("beta")},
               [("invgamma_E", ["alphap1", "beta", "x"], "res")])
    defs += tr("InverseGammaEnergy.get_transformation", {"self._alphap1": V("alphap1")},
               [("invgamma_t", ["alphap1", "x"], "res")])

    # ---- Student-t --------------------------------------------------------------------------------
    defs += tr("StudentTEnergy.apply", {"x": V("x"), "self._theta": V("theta")}, [("studentt_E", ["theta", "x"], "res")])
    defs += tr("StudentTEnergy.get_transformation", {"self._theta": V("theta")}, [("studentt_t", ["theta", "x"], "return.1")],
               flags={"isinstance(self._theta, Field) or isinstance(self._theta, MultiField)": False})

    # ---- Bernoulli --------------------------------------------------------------------------------
    defs += tr("BernoulliEnergy.apply", {"x": V("x"), "self._d": V("d")}, [("bernoulli_E", ["d", "x"], "res")])
    defs += tr("BernoulliEnergy.get_transformation", {}, [("bernoulli_t", ["x"], "return.1")])

    # ---- categorical (one pixel = one category of one row) ------------------------------------------
    defs += tr("CategoricalEnergy.apply", {"x": V("x"), "self._d": V("d")}, [("categorical_E", ["d", "x"], "res")])
    defs += tr("CategoricalEnergy.get_transformation", {}, [("categorical_t", ["x"], "return.1")])

    # ---- variable-covariance Gaussian (residual r, inverse variance i) ------------------------------
    fv = funcs()
    fv["MultiField.from_dict"] = lambda tr_, args, kw: ("poison", "metric container")
    inp_r = {"x[self._kr]": V("r"), "x[self._ki]": V("i")}
    inp_c = {"x[self._kr]": ("cx", V("ra"), V("rb")), "x[self._ki]": V("i")}
    defs += tr("VariableCovarianceGaussianEnergy.apply", inp_r, [("vcg_real_E", ["r", "i"], "res")],
               flags={"self._cplx": False})
    defs += tr("VariableCovarianceGaussianEnergy.apply", inp_c, [("vcg_cplx_E", ["ra", "rb", "i"], "res")],
               flags={"self._cplx": True})
    # the explicit full-Fisher metric: met = {kr: i.val, ki: fct*i.val**(-2)}
    for nm, cplx in (("real", False), ("cplx", True)):
        cfgm = T.Cfg(funcs=funcs(), methods=METHODS, attrs=ATTRS,
                     flags={"self._cplx": cplx, "not x.want_metric": False, "not self._use_full_fisher": False})
        fd = src.find("VariableCovarianceGaussianEnergy.apply")
        run = T.Run(cfgm, "energy_operators.py:VariableCovarianceGaussianEnergy.apply")
        env = dict(inp_c if cplx else inp_r)
        run.body(fd.body, env)
        # pick the two dictionary values of `met = {self._kr: ..., self._ki: ...}` (first assignment)
        met = None
        for st in T.ast.walk(fd):
            if isinstance(st, T.ast.Assign) and T.dotted(st.targets[0]) == "met" and isinstance(st.value, T.ast.Dict):
                met = st.value
                break
        if met is None or [T.ast.unparse(k) for k in met.keys] != ["self._kr", "self._ki"]:
            raise T.TranslationError("VariableCovarianceGaussianEnergy.apply: metric dictionary not found")
        quote = src.segment(fd)
        org = "%s:%d VariableCovarianceGaussianEnergy.apply (metric dictionary)" % (src.rel, fd.lineno)
        defs.append(T.Def("vcg_%s_M_r" % nm, ["i"], run.expr(met.values[0], env), origin=org, quote=quote, flags=run.used_flags))
        defs.append(T.Def("vcg_%s_M_i" % nm, ["i"], run.expr(met.values[1], env), origin=org, quote="", flags=run.used_flags))
    # get_transformation: f = r.adjoint @ (ivar.sqrt()*r) + ivar.adjoint @ (sc*ivar.log())
    ft = funcs()
    ft["FieldAdapter"] = lambda tr_, args, kw: ("poison", "FieldAdapter")
    keys = {"r", "ivar"}
    defs += tr("VariableCovarianceGaussianEnergy.get_transformation", {"r": V("r"), "ivar": V("i")},
               [("vcg_real_t_r", ["r", "i"], "f@r"), ("vcg_real_t_i", ["i"], "f@ivar")],
               flags={"self._cplx": False}, bound=["r", "ivar"], keys=keys)
    defs += tr("VariableCovarianceGaussianEnergy.get_transformation", {"r": ("cx", V("ra"), V("rb")), "ivar": V("i")},
               [("vcg_cplx_t_ra", ["ra", "i"], "f@r#re"), ("vcg_cplx_t_rb", ["rb", "i"], "f@r#im"),
                ("vcg_cplx_t_i", ["i"], "f@ivar")],
               flags={"self._cplx": True}, bound=["r", "ivar"], keys=keys)

    # ---- _SpecialGammaEnergy (VCG with constant residual) ------------------------------------------
    defs += tr("_SpecialGammaEnergy.apply", {"x": V("x"), "self._resi": V("r")}, [("sgamma_real_E", ["r", "x"], "res")],
               flags={"self._cplx": False})
    defs += tr("_SpecialGammaEnergy.apply", {"x": V("x"), "self._resi": ("cx", V("ra"), V("rb"))},
               [("sgamma_cplx_E", ["ra", "rb", "x"], "res")], flags={"self._cplx": True})
    defs += tr("_SpecialGammaEnergy.get_transformation", {}, [("sgamma_real_t", ["x"], "return.1")], flags={"self._cplx": False})
    defs += tr("_SpecialGammaEnergy.get_transformation", {}, [("sgamma_cplx_t", ["x"], "return.1")], flags={"self._cplx": True})
    return defs


def generate(repo):
    defs = build(repo)
    text = T.emit_coq(defs, "C11 classic likelihood energies (nifty/cl/operators/energy_operators.py)", FREE)
    return defs, text
