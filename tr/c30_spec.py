"""C30: which formulas of /repo are translated (tr/realexpr.py) into coq/C30/Gen_Prior.v.

Free function symbols (Section Variables of the generated file, oracles in the correspondence):
  Phi     standard normal CDF          jax.scipy.stats.norm.cdf, scipy.stats.norm._cdf
  phi     standard normal density      scipy.stats.norm._pdf
  PhiInv  standard normal quantile     scipy.stats.norm._ppf
`norm.logcdf(x)` is translated as ln (Phi x) (its documented meaning).
`scipy.stats.laplace.ppf / .cdf` are SciPy, not NIFTy: they are the hand-written definitions
laplace_ppf / laplace_cdf of coq/C30/Model.v (compared numerically with SciPy in the correspondence)
and appear in the generated file as free symbols of arity 3 that Props.v instantiates with them.
"""
import os

from . import realexpr as T
from .realexpr import V, C_

FREE = [("Phi", 1), ("phi", 1), ("PhiInv", 1), ("laplace_ppf", 3), ("laplace_cdf", 3)]


def _logcdf(tr, args, kw):
    T._arity(args, 1)
    return T.mkf("f", "ln", [T.mkf("free", "Phi", args)])


def _arg2(tr, args, kw):        # Field(domain, value) -> value
    T._arity(args, 2)
    return args[1]


def _arg1(tr, args, kw):        # makeOp(value) / float(value) -> value
    return args[0]


def funcs():
    f = T.np_funcs()
    f.update({
        "norm.cdf": T.free("Phi"), "norm._cdf": T.free("Phi"),
        "norm._pdf": T.free("phi"), "norm.pdf": T.free("phi"),
        "norm._ppf": T.free("PhiInv"), "norm.ppf": T.free("PhiInv"),
        "norm.logcdf": _logcdf,
        "laplace.ppf": T.free("laplace_ppf", 3), "laplace.cdf": T.free("laplace_cdf", 3),
        "Field": _arg2, "makeOp": _arg1, "float": _arg1,
    })
    return f


def _ptw(tr, o, args, raw):
    if len(raw) != 1 or not isinstance(raw[0], T.ast.Constant) or raw[0].value not in ("exp", "log", "sqrt"):
        return ("poison", "ptw(%s)" % T.ast.unparse(raw[0]) if raw else "ptw()")
    return T.mkf("f", {"exp": "exp", "log": "ln", "sqrt": "sqrt"}[raw[0].value], [o])


METHODS = {"ptw": _ptw,
           "at": lambda tr, o, args, raw: o,         # device placement
           "asnumpy": lambda tr, o, args, raw: o}


def build(repo):
    """Returns the list of Defs."""
    sd = T.Source(os.path.join(repo, "nifty/re/num/stats_distributions.py"), repo)
    ut = T.Source(os.path.join(repo, "nifty/cl/utilities.py"), repo)
    no = T.Source(os.path.join(repo, "nifty/cl/operators/normal_operators.py"), repo)
    sp = T.Source(os.path.join(repo, "nifty/cl/library/special_distributions.py"), repo)
    defs = []

    # ---------------- JAX: nifty/re/num/stats_distributions.py -----------------------------------
    inl = {n: sd.find(n) for n in ("_standard_to_normal", "_normal_to_standard", "lognormal_moments")}
    cfg = T.Cfg(funcs=funcs(), inline=inl)
    x = {"xi": V("xi")}
    defs += T.translate(sd, "_standard_to_laplace", cfg, {"xi": V("xi"), "alpha": V("alpha")},
                        [("re_laplace", ["alpha", "xi"], "return")])
    defs += T.translate(sd, "_standard_to_normal", cfg, {"xi": V("xi"), "mean": V("mean"), "std": V("std")},
                        [("re_normal", ["mean", "std", "xi"], "return")])
    defs += T.translate(sd, "_normal_to_standard", cfg, {"y": V("y"), "mean": V("mean"), "std": V("std")},
                        [("re_normal_inv", ["mean", "std", "y"], "return")])
    # tree_any(mean <= 0.0) / tree_any(std <= 0.0) guards raise: recorded as preconditions
    defs += T.translate(sd, "lognormal_moments", cfg, {"mean": V("mean"), "std": V("std")},
                        [("re_lognormal_logmean", ["mean", "std"], "return.0"),
                         ("re_lognormal_logstd", ["mean", "std"], "return.1")])
    defs += T.translate(sd, "_standard_to_lognormal", cfg,
                        {"xi": V("xi"), "log_mean": V("log_mean"), "log_std": V("log_std")},
                        [("re_lognormal", ["log_mean", "log_std", "xi"], "return")])
    defs += T.translate(sd, "_lognormal_to_standard", cfg,
                        {"y": V("y"), "log_mean": V("log_mean"), "log_std": V("log_std")},
                        [("re_lognormal_inv", ["log_mean", "log_std", "y"], "return")])
    defs += T.translate(sd, "_standard_to_uniform", cfg, {"xi": V("xi"), "a_min": V("a_min"), "scale": V("scale")},
                        [("re_uniform", ["a_min", "scale", "xi"], "return")])
    # uniform_prior: scale = a_max - a_min (the (0.0, 1.0) fast path returns norm.cdf itself)
    cfg_u = T.Cfg(funcs=funcs(), flags={
        "isinstance(a_min, float) and isinstance(a_max, float) and (a_min == 0.0) and (a_max == 1.0)": False})
    defs += T.translate(sd, "uniform_prior", cfg_u, {"a_min": V("a_min"), "a_max": V("a_max")},
                        [("re_uniform_scale", ["a_min", "a_max"], "scale")])

    # ---------------- classic: utilities.lognormal_moments, normal_operators ---------------------
    cfg_c = T.Cfg(funcs=funcs(), methods=METHODS)
    defs += T.translate(ut, "lognormal_moments", cfg_c, {"mean": V("mean"), "sigma": V("sigma")},
                        [("cl_lognormal_logmean", ["mean", "sigma"], "return.0"),
                         ("cl_lognormal_logsigma", ["mean", "sigma"], "return.1")],
                        bound=["mean", "sigma"])
    f_no = funcs()
    f_no["ducktape"] = lambda tr, args, kw: V("xi")       # the latent field addressed by `key`
    cfg_n = T.Cfg(funcs=f_no, methods=METHODS, inline={"NormalTransform": no.find("NormalTransform")},
                  flags={"N_copies == 0": True})
    defs += T.translate(no, "NormalTransform", cfg_n, {"mean": V("mean"), "sigma": V("sigma")},
                        [("cl_normal", ["mean", "sigma", "xi"], "return")], bound=["mean", "sigma", "domain"])
    # LognormalTransform(mean, sigma) = NormalTransform(logmean, logsigma).ptw("exp"); the moments
    # are bound to inputs here and composed with cl_lognormal_logmean/_logsigma in the theorems
    defs += T.translate(no, "LognormalTransform", cfg_n, {"logmean": V("logmean"), "logsigma": V("logsigma")},
                        [("cl_lognormal", ["logmean", "logsigma", "xi"], "return")],
                        bound=["logmean", "logsigma"])

    # ---------------- classic: special_distributions ---------------------------------------------
    cfg_s = T.Cfg(funcs=funcs(), methods=METHODS, flags={"not lin": False})
    inp = {"xval": V("x"), "self._loc": V("loc"), "self._scale": V("scale")}
    defs += T.translate(sp, "UniformOperator.apply", cfg_s, inp,
                        [("cl_uniform", ["loc", "scale", "x"], "res"),
                         ("cl_uniform_jac", ["loc", "scale", "x"], "jac")], bound=["xval", "lin"])
    defs += T.translate(sp, "UniformOperator.inverse", cfg_s,
                        {"field.val": V("y"), "self._loc": V("loc"), "self._scale": V("scale")},
                        [("cl_uniform_inv", ["loc", "scale", "y"], "res")])
    cfg_l = T.Cfg(funcs=funcs(), methods=METHODS, flags={"not lin": True})
    defs += T.translate(sp, "LaplaceOperator.apply", cfg_l, inp,
                        [("cl_laplace", ["loc", "scale", "x"], "res")], bound=["xval", "lin"])
    defs += T.translate(sp, "LaplaceOperator.apply", cfg_s, inp,
                        [("cl_laplace_jac", ["loc", "scale", "x"], "jac")], bound=["xval", "lin"])
    defs += T.translate(sp, "LaplaceOperator.inverse", cfg_s,
                        {"x": V("y"), "self._loc": V("loc"), "self._scale": V("scale")},
                        [("cl_laplace_inv", ["loc", "scale", "y"], "res")])

    # InverseGammaOperator.__init__ parameter conversions, both constructor branches
    t_aq = "alpha is not None and q is not None"
    t_mm = "mean is not None and mode is not None"
    cfg_aq = T.Cfg(funcs=funcs(), flags={t_aq: True, "self._alpha > 1": True, "isinstance(q, Field)": False})
    defs += T.translate(sp, "InverseGammaOperator.__init__", cfg_aq, {"alpha": V("alpha"), "q": V("q")},
                        [("cl_invgamma_mode_of_aq", ["alpha", "q"], "self._mode"),
                         ("cl_invgamma_mean_of_aq", ["alpha", "q"], "self._mean")])
    cfg_mm = T.Cfg(funcs=funcs(), flags={t_aq: False, t_mm: True})
    defs += T.translate(sp, "InverseGammaOperator.__init__", cfg_mm, {"mean": V("mean"), "mode": V("mode")},
                        [("cl_invgamma_alpha_of_mm", ["mean", "mode"], "self._alpha"),
                         ("cl_invgamma_q_of_mm", ["mean", "mode"], "self._q")])
    cfg_v = T.Cfg(funcs=funcs(), flags={"self._alpha <= 2": False})
    defs += T.translate(sp, "InverseGammaOperator.var", cfg_v, {"self._alpha": V("alpha"), "self._q": V("q")},
                        [("cl_invgamma_var", ["alpha", "q"], "return")])

    # GammaOperator.__init__ (mean, var) -> (alpha, theta), and the moment properties
    cfg_g = T.Cfg(funcs=funcs(), flags={"mean is not None and var is not None": True,
                                        "beta is None and theta is None": False,
                                        "beta is not None": False, "isinstance(theta, Field)": False})
    defs += T.translate(sp, "GammaOperator.__init__", cfg_g, {"mean": V("mean"), "var": V("var")},
                        [("cl_gamma_alpha_of_mv", ["mean", "var"], "self._alpha"),
                         ("cl_gamma_theta_of_mv", ["mean", "var"], "self._theta")])
    at = {"self._alpha": V("alpha"), "self._theta": V("theta")}
    defs += T.translate(sp, "GammaOperator.mean", T.Cfg(funcs=funcs()), at, [("cl_gamma_mean", ["alpha", "theta"], "return")])
    defs += T.translate(sp, "GammaOperator.var", T.Cfg(funcs=funcs()), at, [("cl_gamma_var", ["alpha", "theta"], "return")])
    return defs


def generate(repo):
    defs = build(repo)
    text = T.emit_coq(defs, "C30 prior transforms (nifty/re/num/stats_distributions.py, nifty/cl/utilities.py, "
                            "nifty/cl/operators/normal_operators.py, nifty/cl/library/special_distributions.py)", FREE)
    return defs, text
