"""C03 translator: nifty/cl/pointwise.py `ptw_dict`  ->  Gallina (fail closed).

Every entry `name: (plain, helper)` of `ptw_dict` is read with Python's `ast` and turned into a small
expression IR (one real variable `x`, optional real parameters).  Three back ends print the IR:

  * `to_R`   Coquelicot reals          -> coq/C03/Gen_Ptw.v   (all entries)
               Definition ptwp_<name> : R -> R      the plain function        ptw_dict[name][0]
               Definition ptw_<name>  : R -> R      value component of helper ptw_dict[name][1]
               Definition dptw_<name> : R -> R      derivative component of helper
  * `to_Q`   exact rationals (QArith)  -> coq/C03/Gen_PtwQ.v  (entries without transcendental functions,
               with an integer exponent for `power`); used by the correspondence check
  * `ev`     Python floats             -> numeric tie of the translator's reading of NumPy with NumPy

Anything outside the whitelist below raises TranslationError (no silent default)."""
import ast
import math
from fractions import Fraction


class TranslationError(Exception):
    pass


# np.<fn>(one argument) that are copied as named functions
UNARY = {"sqrt", "sin", "cos", "tan", "exp", "log", "sinh", "cosh", "tanh", "arctan", "abs", "sign",
         "expm1", "log1p", "log10", "sinc"}

EXPECTED = ["sqrt", "sin", "cos", "tan", "sinc", "exp", "expm1", "log", "log10", "log1p", "sinh", "cosh", "tanh",
            "sigmoid", "reciprocal", "abs", "absolute", "sign", "power", "clip", "softplus", "exponentiate",
            "arctan", "unitstep"]


def num(v):
    if isinstance(v, bool) or not isinstance(v, (int, float)):
        raise TranslationError("constant %r" % (v,))
    return ("num", Fraction(v))


class Fn:
    """Translation of one function body (FunctionDef or Lambda) applied to IR arguments."""

    def __init__(self, funcs):
        self.funcs = funcs

    # ---- expressions ---------------------------------------------------------------------------
    def expr(self, e, env, mask=None):
        if isinstance(e, ast.Constant):
            return num(e.value)
        if isinstance(e, ast.Name):
            if e.id not in env:
                raise TranslationError("unbound name %s" % e.id)
            v = env[e.id]
            if v[0] == "masked":
                if mask is None or v[1] != mask:
                    raise TranslationError("masked variable %s used outside its mask" % e.id)
                return v[2]
            if v[0] in ("pybool", "mask"):
                raise TranslationError("%s is not a number" % e.id)
            return v
        if isinstance(e, ast.Attribute) and isinstance(e.value, ast.Name) and e.value.id == "np":
            if e.attr == "pi":
                return ("pi",)
            if e.attr == "nan":
                return ("nan",)
            raise TranslationError("np.%s" % e.attr)
        if isinstance(e, ast.BinOp):
            a, b = self.expr(e.left, env, mask), self.expr(e.right, env, mask)
            if isinstance(e.op, ast.Add):
                return ("add", a, b)
            if isinstance(e.op, ast.Sub):
                return ("sub", a, b)
            if isinstance(e.op, ast.Mult):
                return ("mul", a, b)
            if isinstance(e.op, ast.Div):
                return ("div", a, b)
            if isinstance(e.op, ast.Pow):
                if b[0] == "num" and b[1].denominator == 1 and b[1] >= 0:
                    return ("powi", a, int(b[1]))
                raise TranslationError("general ** power")
            raise TranslationError("binop %s" % type(e.op).__name__)
        if isinstance(e, ast.UnaryOp) and isinstance(e.op, ast.USub):
            return ("neg", self.expr(e.operand, env, mask))
        if isinstance(e, ast.Subscript):
            # a[m] inside an assignment masked by the same m: element-wise it is a
            if mask is None:
                raise TranslationError("masked read outside a masked assignment")
            m = self.mask(e.slice, env)
            if m != mask:
                raise TranslationError("masked read with a different mask")
            return self.expr(e.value, env, mask)
        if isinstance(e, ast.Call):
            f = e.func
            if e.keywords:
                raise TranslationError("keyword arguments")
            if isinstance(f, ast.Attribute) and isinstance(f.value, ast.Name) and f.value.id == "np":
                fn = f.attr
                if fn == "where" and len(e.args) == 3:
                    return ("if", self.mask(e.args[0], env), self.expr(e.args[1], env, mask), self.expr(e.args[2], env, mask))
                if fn in ("ones_like", "zeros_like", "empty_like") and len(e.args) == 1:
                    self.expr(e.args[0], env, mask)
                    return {"ones_like": ("num", Fraction(1)), "zeros_like": ("num", Fraction(0)), "empty_like": ("undef",)}[fn]
                args = [self.expr(a, env, mask) for a in e.args]
                if fn in UNARY and len(args) == 1:
                    return ("fn", fn, args[0])
                if fn == "power" and len(args) == 2:
                    return ("rpower", args[0], args[1])
                if fn == "clip" and len(args) == 3:
                    return ("min", ("max", args[0], args[1]), args[2])
                raise TranslationError("np.%s/%d" % (fn, len(args)))
            if isinstance(f, ast.Name) and f.id in self.funcs:
                # call of a module-level helper with (IR | python bool) arguments
                args = []
                for a in e.args:
                    if isinstance(a, ast.Constant) and isinstance(a.value, bool):
                        args.append(("pybool", a.value))
                    else:
                        args.append(self.expr(a, env, mask))
                r = self.body(self.funcs[f.id], args)
                return r
            raise TranslationError("call " + ast.dump(f)[:60])
        if isinstance(e, ast.Tuple):
            return ("tuple",) + tuple(self.expr(x, env, mask) for x in e.elts)
        raise TranslationError(ast.dump(e)[:80])

    def mask(self, e, env):
        if isinstance(e, ast.Name):
            v = env.get(e.id)
            if v is None or v[0] != "mask":
                raise TranslationError("%s is not a mask" % e.id)
            return v[1]
        if isinstance(e, ast.UnaryOp) and isinstance(e.op, ast.Invert):
            return ("not", self.mask(e.operand, env))
        if isinstance(e, ast.Compare) and len(e.ops) == 1:
            a, b = self.expr(e.left, env), self.expr(e.comparators[0], env)
            op = {ast.Eq: "eq", ast.NotEq: "ne", ast.Lt: "lt", ast.LtE: "le", ast.Gt: "gt", ast.GtE: "ge"}.get(type(e.ops[0]))
            if op is None:
                raise TranslationError("comparison")
            if op == "gt":
                op, a, b = "lt", b, a
            if op == "ge":
                op, a, b = "le", b, a
            if op == "ne":
                return ("not", ("eq", a, b))
            return (op, a, b)
        if (isinstance(e, ast.Call) and isinstance(e.func, ast.Attribute) and isinstance(e.func.value, ast.Name)
                and e.func.value.id == "np" and e.func.attr == "logical_or" and len(e.args) == 2):
            return ("or", self.mask(e.args[0], env), self.mask(e.args[1], env))
        raise TranslationError("mask " + ast.dump(e)[:60])

    # ---- guards that only reject inputs (complex dtype, wrong argument type) ----------------------
    @staticmethod
    def is_reject_guard(st):
        if not (isinstance(st, ast.If) and not st.orelse and len(st.body) == 1 and isinstance(st.body[0], ast.Raise)):
            return False
        src = ast.unparse(st.test)
        return src in ("np.issubdtype(v.dtype, np.complexfloating)",
                       "not isinstance(a_min, (float, int) + ALLOWED_WRAPPEES)")

    # ---- statements ------------------------------------------------------------------------------
    def body(self, fd, args):
        if isinstance(fd, ast.Lambda):
            names = [a.arg for a in fd.args.args]
            if len(names) != len(args):
                raise TranslationError("lambda arity")
            return self.expr(fd.body, dict(zip(names, args)))
        names = [a.arg for a in fd.args.args]
        if len(names) != len(args) or fd.args.defaults or fd.args.kwonlyargs or fd.args.vararg or fd.args.kwarg:
            raise TranslationError("signature of %s" % fd.name)
        env = dict(zip(names, args))
        r = self.stmts(fd.body, env)
        if r is None:
            raise TranslationError("no return in %s" % fd.name)
        return r

    def stmts(self, body, env):
        for st in body:
            if isinstance(st, ast.Expr) and isinstance(st.value, ast.Constant) and isinstance(st.value.value, str):
                continue
            if self.is_reject_guard(st):
                continue
            if isinstance(st, ast.If) and not st.orelse:
                t = st.test
                # `if <param> is not None:`  -- the parameter is a real number here, take the branch
                if (isinstance(t, ast.Compare) and isinstance(t.left, ast.Name) and len(t.ops) == 1
                        and isinstance(t.ops[0], ast.IsNot) and isinstance(t.comparators[0], ast.Constant)
                        and t.comparators[0].value is None and env.get(t.left.id, ("?",))[0] == "param"):
                    r = self.stmts(st.body, env)
                    if r is not None:
                        return r
                    continue
                # `if <python bool argument>:` -- decided statically
                if isinstance(t, ast.Name) and env.get(t.id, ("?",))[0] == "pybool":
                    if env[t.id][1]:
                        r = self.stmts(st.body, env)
                        if r is not None:
                            return r
                    continue
                raise TranslationError("if " + ast.unparse(t)[:60])
            if isinstance(st, ast.Assign) and len(st.targets) == 1:
                tg = st.targets[0]
                if isinstance(tg, ast.Name):
                    v = st.value
                    # mask definitions
                    try:
                        m = self.mask(v, env)
                        env[tg.id] = ("mask", m)
                        continue
                    except TranslationError:
                        pass
                    # v = v[sel]  (compress): from now on the variable lives under that mask
                    if isinstance(v, ast.Subscript) and isinstance(v.value, ast.Name):
                        m = self.mask(v.slice, env)
                        env[tg.id] = ("masked", m, self.expr(v.value, env))
                        continue
                    env[tg.id] = self.expr(v, env)
                    continue
                if isinstance(tg, ast.Subscript) and isinstance(tg.value, ast.Name):
                    m = self.mask(tg.slice, env)
                    old = env.get(tg.value.id)
                    if old is None or old[0] in ("mask", "masked", "pybool"):
                        raise TranslationError("masked store into %s" % tg.value.id)
                    env[tg.value.id] = ("if", m, self.expr(st.value, env, mask=m), old)
                    continue
            if isinstance(st, ast.Return) and st.value is not None:
                return self.expr(st.value, env)
            raise TranslationError("statement %s" % ast.unparse(st)[:60])
        return None


def contains(t, tag):
    if not isinstance(t, tuple):
        return False
    if t and t[0] == tag:
        return True
    return any(contains(x, tag) for x in t[1:])


def translate(src_text):
    """Returns ordered list of entries: dict(name, params, plain, val, der)."""
    tree = ast.parse(src_text)
    funcs = {n.name: n for n in tree.body if isinstance(n, ast.FunctionDef)}
    table = None
    for n in tree.body:
        if isinstance(n, ast.Assign) and len(n.targets) == 1 and getattr(n.targets[0], "id", None) == "ptw_dict":
            if table is not None:
                raise TranslationError("ptw_dict assigned twice")
            table = n.value
        elif isinstance(n, (ast.AugAssign, ast.AnnAssign)) or (
                isinstance(n, ast.Expr) and not isinstance(n.value, ast.Constant)):
            raise TranslationError("unexpected module-level statement: " + ast.unparse(n)[:60])
    if not isinstance(table, ast.Dict):
        raise TranslationError("ptw_dict is not a dict literal")
    # nothing may modify ptw_dict or rebind helpers after their definition
    for n in ast.walk(tree):
        if isinstance(n, (ast.Global, ast.Nonlocal, ast.Delete)):
            raise TranslationError("global/nonlocal/del in pointwise.py")
    names_defined = [n.name for n in tree.body if isinstance(n, ast.FunctionDef)]
    if len(set(names_defined)) != len(names_defined):
        raise TranslationError("a helper is defined twice")
    out = []
    for k, v in zip(table.keys, table.values):
        if not (isinstance(k, ast.Constant) and isinstance(k.value, str)):
            raise TranslationError("non-literal key")
        name = k.value
        if not (isinstance(v, ast.Tuple) and len(v.elts) == 2):
            raise TranslationError("entry %s is not a pair" % name)
        plain, helper = v.elts
        F = Fn(funcs)
        try:
            # helper
            if isinstance(helper, ast.Name):
                if helper.id not in funcs:
                    raise TranslationError("unknown helper %s" % helper.id)
                hfd = funcs[helper.id]
            elif isinstance(helper, ast.Lambda):
                hfd = helper
            else:
                raise TranslationError("helper kind")
            hargs = [a.arg for a in hfd.args.args]
            params = hargs[1:]
            irargs = [("x",)] + [("param", p) for p in params]
            h = F.body(hfd, irargs)
            # 2*(np.exp(v),)  == (np.exp(v), np.exp(v))
            if h[0] == "mul" and h[1] == ("num", Fraction(2)) and h[2][0] == "tuple" and len(h[2]) == 2:
                h = ("tuple", h[2][1], h[2][1])
            if not (h[0] == "tuple" and len(h) == 3):
                raise TranslationError("helper does not return a pair")
            val, der = h[1], h[2]
            # plain
            if isinstance(plain, ast.Attribute) and isinstance(plain.value, ast.Name) and plain.value.id == "np":
                call = ast.Call(func=plain, args=[ast.Name(id=a, ctx=ast.Load()) for a in hargs], keywords=[])
                p = F.expr(call, dict(zip(hargs, irargs)))
            elif isinstance(plain, ast.Lambda):
                pargs = [a.arg for a in plain.args.args]
                if pargs[1:] != params:
                    raise TranslationError("parameter lists differ")
                p = F.body(plain, irargs)
            elif isinstance(plain, ast.Name) and plain.id in funcs:
                pargs = [a.arg for a in funcs[plain.id].args.args]
                if pargs[1:] != params:
                    raise TranslationError("parameter lists differ")
                p = F.body(funcs[plain.id], irargs)
            else:
                raise TranslationError("plain kind")
            for t in (p, val, der):
                if contains(t, "tuple") or contains(t, "pybool") or contains(t, "mask") or contains(t, "masked"):
                    raise TranslationError("non-scalar result")
        except TranslationError as e:
            raise TranslationError("ptw_dict[%r]: %s" % (name, e))
        out.append({"name": name, "params": params, "plain": p, "val": val, "der": der})
    got = [e["name"] for e in out]
    if got != EXPECTED:
        raise TranslationError("ptw_dict entries changed: expected %r, got %r (theorem list must be extended)" % (EXPECTED, got))
    return out


# ---- back end: Coquelicot reals ----------------------------------------------------------------------

RFN = {"sqrt": "sqrt", "sin": "sin", "cos": "cos", "tan": "tan", "exp": "exp", "log": "ln", "sinh": "sinh",
       "cosh": "cosh", "tanh": "tanh", "arctan": "atan", "abs": "Rabs", "sign": "sign", "sinc": "np_sinc"}


def frac_R(fr):
    if fr.denominator == 1:
        return "%d" % fr.numerator if fr.numerator >= 0 else "(%d)" % fr.numerator
    return "(%d/%d)" % (fr.numerator, fr.denominator)


def to_R(t):
    k = t[0]
    if k == "x":
        return "x"
    if k == "param":
        return t[1]
    if k == "num":
        return frac_R(t[1])
    if k == "pi":
        return "PI"
    if k == "nan":
        return "NaN_R"
    if k == "undef":
        return "Undef_R"
    if k in ("add", "sub", "mul", "div"):
        return "(%s %s %s)" % (to_R(t[1]), {"add": "+", "sub": "-", "mul": "*", "div": "/"}[k], to_R(t[2]))
    if k == "neg":
        return "(- %s)" % to_R(t[1])
    if k == "powi":
        return "(%s ^ %d)" % (to_R(t[1]), t[2])
    if k == "rpower":
        return "(Rpower %s %s)" % (to_R(t[1]), to_R(t[2]))
    if k == "min":
        return "(Rmin %s %s)" % (to_R(t[1]), to_R(t[2]))
    if k == "max":
        return "(Rmax %s %s)" % (to_R(t[1]), to_R(t[2]))
    if k == "fn":
        a = to_R(t[2])
        if t[1] == "expm1":
            return "(exp %s - 1)" % a
        if t[1] == "log1p":
            return "(ln (1 + %s))" % a
        if t[1] == "log10":
            return "(ln %s / ln 10)" % a
        return "(%s %s)" % (RFN[t[1]], a)
    if k == "if":
        return "(if %s then %s else %s)" % (cond_R(t[1]), to_R(t[2]), to_R(t[3]))
    raise TranslationError("to_R " + k)


def cond_R(c):
    k = c[0]
    if k == "eq":
        return "(Req_b %s %s)" % (to_R(c[1]), to_R(c[2]))
    if k == "lt":
        return "(Rlt_b %s %s)" % (to_R(c[1]), to_R(c[2]))
    if k == "le":
        return "(Rle_b %s %s)" % (to_R(c[1]), to_R(c[2]))
    if k == "not":
        return "(negb %s)" % cond_R(c[1])
    if k == "or":
        return "(orb %s %s)" % (cond_R(c[1]), cond_R(c[2]))
    raise TranslationError("cond_R " + k)


def gen_R(entries, src_name):
    L = ["(* GENERATED by tr/c03_ptw.py from %s -- do not edit. *)" % src_name,
         "From Coq Require Import Reals Bool.", "From Coquelicot Require Import Coquelicot.",
         "Require Import NV.C03.PtwBase.", "Open Scope R_scope.", ""]
    for e in entries:
        ps = "".join(" (%s : R)" % p for p in e["params"])
        L.append("Definition ptwp_%s%s (x : R) : R := %s." % (e["name"], ps, to_R(e["plain"])))
        L.append("Definition ptw_%s%s (x : R) : R := %s." % (e["name"], ps, to_R(e["val"])))
        L.append("Definition dptw_%s%s (x : R) : R := %s." % (e["name"], ps, to_R(e["der"])))
    return "\n".join(L) + "\n"


# ---- back end: exact rationals ----------------------------------------------------------------------

# "sqrt" and "log" are translated with the PARTIAL exact primitives of PtwBaseQ.v (Qsqrt_exact: exact on
# squares of rationals; Qlog_at1: the value 0, exact only at 1); they are used by C04 (variable-covariance
# Gaussian) on inputs inside those sets; their derivative components (1/2)/sqrt v and 1/v are rational.
Q_ENTRIES = ["reciprocal", "abs", "absolute", "sign", "power", "clip", "unitstep", "sqrt", "log"]


def to_Q(t, zparams):
    k = t[0]
    r = lambda u: to_Q(u, zparams)
    if k == "x":
        return "x"
    if k == "param":
        if t[1] in zparams:
            raise TranslationError("integer parameter used as a rational")
        return t[1]
    if k == "num":
        return "(%d # %d)" % (t[1].numerator, t[1].denominator)
    if k == "nan":
        return "NaN_Q"
    if k == "undef":
        return "Undef_Q"
    if k in ("add", "sub", "mul", "div"):
        return "(%s %s %s)" % (r(t[1]), {"add": "+", "sub": "-", "mul": "*", "div": "/"}[k], r(t[2]))
    if k == "neg":
        return "(- %s)" % r(t[1])
    if k == "powi":
        return "(%s ^ %d)" % (r(t[1]), t[2])
    if k == "rpower":
        # np.power with an integer exponent: Qpower.  The exponent must be  p  or  p - 1.
        ex = t[2]
        if ex[0] == "param" and ex[1] in zparams:
            z = ex[1]
        elif ex[0] == "sub" and ex[1][0] == "param" and ex[1][1] in zparams and ex[2] == ("num", Fraction(1)):
            z = "(%s - 1)%%Z" % ex[1][1]
        else:
            raise TranslationError("power exponent")
        return "(Qpower %s %s)" % (r(t[1]), z)
    if k == "min":
        return "(Qmin %s %s)" % (r(t[1]), r(t[2]))
    if k == "max":
        return "(Qmax %s %s)" % (r(t[1]), r(t[2]))
    if k == "fn" and t[1] == "abs":
        return "(Qabs %s)" % r(t[2])
    if k == "fn" and t[1] == "sign":
        return "(Qsign %s)" % r(t[2])
    if k == "fn" and t[1] == "sqrt":
        return "(Qsqrt_exact %s)" % r(t[2])
    if k == "fn" and t[1] == "log":
        return "(Qlog_at1 %s)" % r(t[2])
    if k == "mul_zparam":
        return "(inject_Z %s * %s)" % (t[1], r(t[2]))
    if k == "if":
        return "(if %s then %s else %s)" % (cond_Q(t[1], zparams), r(t[2]), r(t[3]))
    raise TranslationError("to_Q: %s is not exact" % (t[1] if k == "fn" else k))


def cond_Q(c, zp):
    k = c[0]
    if k == "eq":
        return "(Qeq_bool %s %s)" % (to_Q(c[1], zp), to_Q(c[2], zp))
    if k == "lt":
        return "(Qlt_b %s %s)" % (to_Q(c[1], zp), to_Q(c[2], zp))
    if k == "le":
        return "(Qle_bool %s %s)" % (to_Q(c[1], zp), to_Q(c[2], zp))
    if k == "not":
        return "(negb %s)" % cond_Q(c[1], zp)
    if k == "or":
        return "(orb %s %s)" % (cond_Q(c[1], zp), cond_Q(c[2], zp))
    raise TranslationError("cond_Q " + k)


def zparam_mul(t, zp):
    """expo * np.power(v, expo-1): the integer parameter as a factor becomes inject_Z."""
    if isinstance(t, tuple):
        if t[0] == "mul" and t[1][0] == "param" and t[1][1] in zp:
            return ("mul_zparam", t[1][1], zparam_mul(t[2], zp))
        return (t[0],) + tuple(zparam_mul(x, zp) for x in t[1:])
    return t


def gen_Q(entries, src_name):
    L = ["(* GENERATED by tr/c03_ptw.py from %s -- do not edit.  Exact (rational) entries only. *)" % src_name,
         "From Coq Require Import ZArith QArith Qabs Qminmax Qpower Bool.", "Require Import NV.C03.PtwBaseQ.",
         "Open Scope Q_scope.", ""]
    by = {e["name"]: e for e in entries}
    for n in Q_ENTRIES:
        e = by[n]
        zp = ["expo"] if n == "power" else []
        ps = "".join(" (%s : %s)" % (p, "Z" if p in zp else "Q") for p in e["params"])
        L.append("Definition qptwp_%s%s (x : Q) : Q := %s." % (n, ps, to_Q(zparam_mul(e["plain"], zp), zp)))
        L.append("Definition qptw_%s%s (x : Q) : Q := %s." % (n, ps, to_Q(zparam_mul(e["val"], zp), zp)))
        L.append("Definition qdptw_%s%s (x : Q) : Q := %s." % (n, ps, to_Q(zparam_mul(e["der"], zp), zp)))
    return "\n".join(L) + "\n"


# ---- back end: floats (numeric tie) ------------------------------------------------------------------

def ev(t, x, params):
    k = t[0]
    r = lambda u: ev(u, x, params)
    if k == "x":
        return x
    if k == "param":
        return params[t[1]]
    if k == "num":
        return float(t[1])
    if k == "pi":
        return math.pi
    if k in ("nan", "undef"):
        return float("nan")
    if k == "add":
        return r(t[1]) + r(t[2])
    if k == "sub":
        return r(t[1]) - r(t[2])
    if k == "mul":
        return r(t[1]) * r(t[2])
    if k == "div":
        return r(t[1]) / r(t[2])
    if k == "neg":
        return -r(t[1])
    if k == "powi":
        return r(t[1]) ** t[2]
    if k == "rpower":
        # real power as Coq's Rpower: exp (b * ln a), a > 0
        return math.exp(r(t[2]) * math.log(r(t[1])))
    if k == "min":
        return min(r(t[1]), r(t[2]))
    if k == "max":
        return max(r(t[1]), r(t[2]))
    if k == "fn":
        a = r(t[2])
        f = t[1]
        if f == "abs":
            return abs(a)
        if f == "sign":
            return (a > 0) - (a < 0)
        if f == "sinc":
            return 1.0 if a == 0 else math.sin(math.pi * a) / (math.pi * a)
        if f == "arctan":
            return math.atan(a)
        if f == "log10":
            return math.log(a) / math.log(10.0)
        return getattr(math, f)(a)
    if k == "if":
        return r(t[2]) if evc(t[1], x, params) else r(t[3])
    raise TranslationError("ev " + k)


def evc(c, x, params):
    k = c[0]
    if k == "eq":
        return ev(c[1], x, params) == ev(c[2], x, params)
    if k == "lt":
        return ev(c[1], x, params) < ev(c[2], x, params)
    if k == "le":
        return ev(c[1], x, params) <= ev(c[2], x, params)
    if k == "not":
        return not evc(c[1], x, params)
    if k == "or":
        return evc(c[1], x, params) or evc(c[2], x, params)
    raise TranslationError("evc " + k)


if __name__ == "__main__":
    import sys
    src = sys.argv[1] if len(sys.argv) > 1 else "/repo/nifty/cl/pointwise.py"
    es = translate(open(src).read())
    print(gen_R(es, src))
    print(gen_Q(es, src))
